import SigHook.Props.C09q
/-!
# C09 for the queueing exfiltrators (continued) — `forever()` obtains a queued record

The progress half of C09 for the model with per-signal queues (L8q), as `Props/C09c.lean` has it for the flag
exfiltrator: while the instance is open, a `forever()` consumer for which a record of `sig` is *due* (one is
queued, and a wake-up byte is in the pipe or the scan has not passed the slot - what `WakeQ` guarantees for
every record whose delivery has completed its wake-up) hands a record of `sig` out within `qcost` of its own
steps, running alone: it drains, scans, hands out the records queued before that slot (three steps each), and
gets there.
-/
namespace SigHook.IterQ
open SigHook
open SigHook.Iter (Cmd Mode)

def Pc.inForever : Pc → Bool
  | .flush .forever | .psClosed .forever | .psNext .forever | .psFin .forever _ | .ppClosed .forever
  | .ppCallback .forever | .psRecheck .forever => true
  | _ => false

def fcovers (th : Thread) (sig : Nat) : Bool :=
  match th.pc with
  | .flush _ => true
  | .psClosed _ | .psNext _ | .psFin _ _ => th.iterPos ≤ sig
  | _ => false

/-- a record of `sig` is in the consumer's hands (next step: hand it out) -/
def inHandOf (th : Thread) (sig : Nat) : Prop := (∃ m id, th.pc = .psFin m id) ∧ th.iterPos = sig

structure DueQ (s : Sys) (th : Thread) (sig : Nat) : Prop where
  mode : th.pc.inForever = true
  opn : s.closed = false
  lt : sig < maxSig
  due : inHandOf th sig ∨ ((∃ r ∈ s.q, r.1 = sig) ∧ (0 < s.pipe ∨ fcovers th sig = true))

def flushCostQ (pipe : Nat) : Nat := (pipe + 1023) / 1024 + 1

def qcost (s : Sys) (th : Thread) (sig : Nat) : Nat :=
  let near := 3 * s.q.length + sig + 3
  let round := flushCostQ s.pipe + near + 4
  match th.pc with
  | .flush _ => flushCostQ s.pipe + near
  | .psNext _ => if th.iterPos ≤ sig then 3 * s.q.length + (sig - th.iterPos) + 2
                 else 3 * s.q.length + (maxSig - th.iterPos) + 1 + round
  | .psFin _ _ => if th.iterPos = sig then 1
                  else if th.iterPos ≤ sig then 3 * s.q.length + (sig - th.iterPos) + 4
                  else 3 * s.q.length + (maxSig - th.iterPos) + 3 + round
  | .psClosed _ => if th.iterPos ≤ sig then 3 * s.q.length + (sig - th.iterPos) + 3
                   else 3 * s.q.length + (maxSig - th.iterPos) + 2 + round
  | .ppClosed _ => round
  | .ppCallback _ => round - 1
  | .psRecheck _ => 3 * s.q.length + (maxSig - th.iterPos) + 3 + round
  | _ => 0

theorem flushCostQ_step (pipe : Nat) (h : 0 < pipe) : flushCostQ (pipe - min pipe 1024) + 1 = flushCostQ pipe := by
  unfold flushCostQ
  by_cases hp : pipe ≤ 1024
  · have : min pipe 1024 = pipe := Nat.min_eq_left hp
    rw [this]
    have a : (pipe - pipe + 1023) / 1024 = 0 := by simp
    have b : (pipe + 1023) / 1024 = 1 := by omega
    omega
  · have : min pipe 1024 = 1024 := Nat.min_eq_right (by omega)
    rw [this]
    omega

theorem flushCostQ_mono (pipe : Nat) : flushCostQ (pipe - 1) ≤ flushCostQ pipe := by
  unfold flushCostQ; omega

theorem length_erase_rec (l : List Rec) (a : Rec) (h : a ∈ l) : (l.erase a).length + 1 = l.length := by
  rw [List.length_erase_of_mem h]
  have : 0 < l.length := List.length_pos_of_mem h
  omega

/-- one step of the `forever()` consumer while a record of `sig` is due -/
theorem dueq_step (rc : Bool) (s : Sys) (t : Nat) (th : Thread) (sig : Nat) (hth : s.threads[t]? = some th)
    (hd : DueQ s th sig) :
    ∃ s' o th', step rc s t = some (s', o) ∧ s'.threads[t]? = some th' ∧ th'.script = th.script ∧
      ((∃ r, o.yielded = some r ∧ r.1 = sig) ∨ (DueQ s' th' sig ∧ qcost s' th' sig + 1 ≤ qcost s th sig)) := by
  have hlt : t < s.threads.length := (List.getElem?_eq_some_iff.1 hth).1
  have get : ∀ (s0 : Sys) (th' : Thread), s0.threads = s.threads → (setT s0 t th').threads[t]? = some th' := by
    intro s0 th' e; simp [setT, e, hlt]
  obtain ⟨hmode, hopen, hsl, hdue⟩ := hd
  have hopen' : ¬ s.closed = true := by rw [hopen]; simp
  unfold step
  simp only [hth]
  cases hpc : th.pc with
  | idle => rw [hpc] at hmode; cases hmode
  | dEnq sg i => rw [hpc] at hmode; cases hmode
  | dWake sg i => rw [hpc] at hmode; cases hmode
  | cWake => rw [hpc] at hmode; cases hmode
  | scan m pos => rw [hpc] at hmode; cases hmode
  | scanFin m pos i => rw [hpc] at hmode; cases hmode
  | psFin m id =>
    have hm : m = .forever := by rw [hpc] at hmode; cases m <;> first | rfl | cases hmode
    subst hm
    simp only
    by_cases heq : th.iterPos = sig
    · exact ⟨_, _, _, rfl, get _ _ rfl, rfl, Or.inl ⟨_, rfl, heq⟩⟩
    · -- a record of another slot: after handing it out the scan goes on
      have hq : (∃ r ∈ s.q, r.1 = sig) ∧ (0 < s.pipe ∨ fcovers th sig = true) := by
        rcases hdue with ⟨_, h⟩ | h
        · exact absurd h heq
        · exact h
      refine ⟨_, _, _, rfl, get _ _ rfl, rfl, Or.inr ⟨⟨rfl, hopen, hsl, Or.inr ⟨hq.1, ?_⟩⟩, ?_⟩⟩
      · rcases hq.2 with h | h
        · exact Or.inl h
        · exact Or.inr (by simpa [fcovers, hpc] using h)
      · simp only [qcost, hpc, setT, heq, if_false]
        by_cases hc : th.iterPos ≤ sig
        · simp only [hc, if_true]; omega
        · simp only [hc, if_false]; omega
  | flush m =>
    have hm : m = .forever := by rw [hpc] at hmode; cases m <;> first | rfl | cases hmode
    subst hm
    have hq : ∃ r ∈ s.q, r.1 = sig := by
      rcases hdue with ⟨⟨m', id, h⟩, _⟩ | h
      · rw [hpc] at h; cases h
      · exact h.1
    simp only [step.stepFlush]
    by_cases hp : s.pipe > 0
    · simp only [hp, if_true]
      refine ⟨_, _, _, rfl, get _ _ rfl, rfl, Or.inr ⟨⟨rfl, hopen, hsl, Or.inr ⟨hq, Or.inr rfl⟩⟩, ?_⟩⟩
      have := flushCostQ_step s.pipe hp
      simp only [qcost, hpc, setT]; omega
    · simp only [hp, if_false]
      have hp0 : s.pipe = 0 := by omega
      refine ⟨_, _, _, rfl, get _ _ rfl, rfl, Or.inr ⟨⟨rfl, hopen, hsl, Or.inr ⟨hq, Or.inr (by simp [fcovers])⟩⟩, ?_⟩⟩
      simp only [qcost, hpc, setT, hp0, flushCostQ, Nat.zero_le, if_true]; omega
  | psClosed m =>
    have hm : m = .forever := by rw [hpc] at hmode; cases m <;> first | rfl | cases hmode
    subst hm
    have hq : (∃ r ∈ s.q, r.1 = sig) ∧ (0 < s.pipe ∨ fcovers th sig = true) := by
      rcases hdue with ⟨⟨m', id, h⟩, _⟩ | h
      · rw [hpc] at h; cases h
      · exact h
    simp only [step.stepPsClosed, hopen', if_false]
    by_cases hcov : th.iterPos ≤ sig
    · have hl : th.iterPos < maxSig := by omega
      refine ⟨_, _, _, rfl, get _ _ rfl, rfl, Or.inr ⟨⟨by simp [hl, Pc.inForever], hopen, hsl,
        Or.inr ⟨hq.1, Or.inr (by simp [fcovers, hl, hcov])⟩⟩, ?_⟩⟩
      simp only [qcost, hpc, setT, hl, if_true, hcov]; omega
    · have hp : 0 < s.pipe := by
        rcases hq.2 with h | h
        · exact h
        · simp [fcovers, hpc, hcov] at h
      by_cases hl : th.iterPos < maxSig
      · refine ⟨_, _, _, rfl, get _ _ rfl, rfl, Or.inr ⟨⟨by simp [hl, Pc.inForever], hopen, hsl, Or.inr ⟨hq.1, Or.inl hp⟩⟩, ?_⟩⟩
        simp only [qcost, hpc, setT, hl, if_true, hcov, if_false]; omega
      · refine ⟨_, _, _, rfl, get _ _ rfl, rfl, Or.inr ⟨⟨by simp [hl, Pc.inForever], hopen, hsl, Or.inr ⟨hq.1, Or.inl hp⟩⟩, ?_⟩⟩
        simp only [qcost, hpc, setT, hl, if_false, hcov]; omega
  | psNext m =>
    have hm : m = .forever := by rw [hpc] at hmode; cases m <;> first | rfl | cases hmode
    subst hm
    have hq : (∃ r ∈ s.q, r.1 = sig) ∧ (0 < s.pipe ∨ fcovers th sig = true) := by
      rcases hdue with ⟨⟨m', id, h⟩, _⟩ | h
      · rw [hpc] at h; cases h
      · exact h
    obtain ⟨⟨r1, hr1, hr1s⟩, hann⟩ := hq
    simp only
    cases hh : headOf s.q th.iterPos with
    | some r0 =>
      simp only
      obtain ⟨h0s, h0m, _⟩ := head_erase s.q th.iterPos r0 hh
      have hlen := length_erase_rec s.q r0 h0m
      by_cases heq : th.iterPos = sig
      · -- the record of `sig` is now in hand
        refine ⟨_, _, _, rfl, get _ _ rfl, rfl, Or.inr ⟨⟨rfl, hopen, hsl, Or.inl ⟨⟨_, _, rfl⟩, heq⟩⟩, ?_⟩⟩
        simp only [qcost, hpc, setT, heq, Nat.le_refl, if_true]; omega
      · have hkeep : ∃ r ∈ s.q.erase r0, r.1 = sig := by
          refine ⟨r1, (List.mem_erase_of_ne ?_).2 hr1, hr1s⟩
          intro e; rw [e, h0s] at hr1s; exact heq hr1s
        by_cases hcov : th.iterPos ≤ sig
        · refine ⟨_, _, _, rfl, get _ _ rfl, rfl, Or.inr ⟨⟨rfl, hopen, hsl, Or.inr ⟨hkeep, Or.inr (by simp [fcovers, hcov])⟩⟩, ?_⟩⟩
          simp only [qcost, hpc, setT, hcov, if_true, heq, if_false]; omega
        · have hp : 0 < s.pipe := by
            rcases hann with h | h
            · exact h
            · simp [fcovers, hpc, hcov] at h
          refine ⟨_, _, _, rfl, get _ _ rfl, rfl, Or.inr ⟨⟨rfl, hopen, hsl, Or.inr ⟨hkeep, Or.inl hp⟩⟩, ?_⟩⟩
          simp only [qcost, hpc, setT, hcov, if_false, heq]; omega
    | none =>
      simp only
      have hne : th.iterPos ≠ sig := by
        intro e; exact head_none_ne s.q th.iterPos r1 hh hr1 (by rw [hr1s, e])
      by_cases hcov : th.iterPos ≤ sig
      · have hcov' : th.iterPos + 1 ≤ sig := by omega
        have hl : th.iterPos + 1 < maxSig := by omega
        refine ⟨_, _, _, rfl, get _ _ rfl, rfl, Or.inr ⟨⟨by simp [hl, Pc.inForever], hopen, hsl,
          Or.inr ⟨⟨r1, hr1, hr1s⟩, Or.inr (by simp [fcovers, hl, hcov'])⟩⟩, ?_⟩⟩
        simp only [qcost, hpc, setT, hl, if_true, hcov, hcov']; omega
      · have hp : 0 < s.pipe := by
          rcases hann with h | h
          · exact h
          · simp [fcovers, hpc, hcov] at h
        have hcov' : ¬ th.iterPos + 1 ≤ sig := by omega
        by_cases hl : th.iterPos + 1 < maxSig
        · refine ⟨_, _, _, rfl, get _ _ rfl, rfl, Or.inr ⟨⟨by simp [hl, Pc.inForever], hopen, hsl, Or.inr ⟨⟨r1, hr1, hr1s⟩, Or.inl hp⟩⟩, ?_⟩⟩
          simp only [qcost, hpc, setT, hl, if_true, hcov, hcov', if_false]; omega
        · refine ⟨_, _, _, rfl, get _ _ rfl, rfl, Or.inr ⟨⟨by simp [hl, Pc.inForever], hopen, hsl, Or.inr ⟨⟨r1, hr1, hr1s⟩, Or.inl hp⟩⟩, ?_⟩⟩
          simp only [qcost, hpc, setT, hl, if_false, hcov]; omega
  | ppClosed m =>
    have hm : m = .forever := by rw [hpc] at hmode; cases m <;> first | rfl | cases hmode
    subst hm
    have hq : (∃ r ∈ s.q, r.1 = sig) ∧ 0 < s.pipe := by
      rcases hdue with ⟨⟨m', id, h⟩, _⟩ | ⟨h1, h2⟩
      · rw [hpc] at h; cases h
      · rcases h2 with h | h
        · exact ⟨h1, h⟩
        · simp [fcovers, hpc] at h
    simp only [hopen', if_false]
    refine ⟨_, _, _, rfl, get _ _ rfl, rfl, Or.inr ⟨⟨rfl, hopen, hsl, Or.inr ⟨hq.1, Or.inl hq.2⟩⟩, ?_⟩⟩
    simp only [qcost, hpc, setT, flushCostQ]; omega
  | psRecheck m =>
    have hm : m = .forever := by rw [hpc] at hmode; cases m <;> first | rfl | cases hmode
    subst hm
    have hq : (∃ r ∈ s.q, r.1 = sig) ∧ 0 < s.pipe := by
      rcases hdue with ⟨⟨m', id, h⟩, _⟩ | ⟨h1, h2⟩
      · rw [hpc] at h; cases h
      · rcases h2 with h | h
        · exact ⟨h1, h⟩
        · simp [fcovers, hpc] at h
    simp only [hopen', if_false]
    refine ⟨_, _, _, rfl, get _ _ rfl, rfl, Or.inr ⟨⟨rfl, hopen, hsl, Or.inr ⟨hq.1, Or.inl hq.2⟩⟩, ?_⟩⟩
    simp only [qcost, hpc, setT]
    by_cases hcov : th.iterPos ≤ sig
    · simp only [hcov, if_true]; omega
    · simp only [hcov, if_false]; omega
  | ppCallback m =>
    have hm : m = .forever := by rw [hpc] at hmode; cases m <;> first | rfl | cases hmode
    subst hm
    have hq : (∃ r ∈ s.q, r.1 = sig) ∧ 0 < s.pipe := by
      rcases hdue with ⟨⟨m', id, h⟩, _⟩ | ⟨h1, h2⟩
      · rw [hpc] at h; cases h
      · rcases h2 with h | h
        · exact ⟨h1, h⟩
        · simp [fcovers, hpc] at h
    have hp0 : ¬ s.pipe = 0 := by omega
    simp only [blocking, if_true, hp0, if_false]
    refine ⟨_, _, _, rfl, get _ _ rfl, rfl, Or.inr ⟨⟨rfl, hopen, hsl, Or.inr ⟨hq.1, Or.inr rfl⟩⟩, ?_⟩⟩
    have := flushCostQ_mono s.pipe
    simp only [qcost, hpc, setT, flushCostQ] at this ⊢; omega

/-- records handed out by thread `t` running alone for `n` steps -/
def soloYieldsQ (rc : Bool) (s : Sys) (t : Nat) : Nat → List Rec
  | 0 => []
  | n + 1 => match step rc s t with
    | some (s', o) => (match o.yielded with | some v => [v] | none => []) ++ soloYieldsQ rc s' t n
    | none => []

/-- **C09.queue_forever_obtains** — while the instance is open, a `forever()` consumer for which a record of
`sig` is due hands a record of `sig` out within `qcost` own steps, running alone. -/
theorem C09_queue_forever_obtains (rc : Bool) :
    ∀ (k : Nat) (s : Sys) (t : Nat) (th : Thread) (sig : Nat), s.threads[t]? = some th → DueQ s th sig →
      qcost s th sig ≤ k → ∃ n, n ≤ k + 1 ∧ ∃ r ∈ soloYieldsQ rc s t n, r.1 = sig := by
  intro k
  induction k with
  | zero =>
    intro s t th sig hth hd hk
    obtain ⟨s', o, th', hs, _, _, hres⟩ := dueq_step rc s t th sig hth hd
    rcases hres with ⟨r, hy, hr⟩ | ⟨_, hlt⟩
    · exact ⟨1, by omega, r, by simp [soloYieldsQ, hs, hy], hr⟩
    · omega
  | succ k ih =>
    intro s t th sig hth hd hk
    obtain ⟨s', o, th', hs, hth', _, hres⟩ := dueq_step rc s t th sig hth hd
    rcases hres with ⟨r, hy, hr⟩ | ⟨hd', hlt⟩
    · exact ⟨1, by omega, r, by simp [soloYieldsQ, hs, hy], hr⟩
    · obtain ⟨n, hn, r, hmem, hr⟩ := ih s' t th' sig hth' hd' (by omega)
      exact ⟨n + 1, by omega, r, by simp only [soloYieldsQ, hs]; exact List.mem_append_right _ hmem, hr⟩

theorem fcovers_of_covers (th : Thread) (sig : Nat) (hm : th.pc.inForever = true) (hc : covers th sig = true) :
    fcovers th sig = true := by
  cases hpc : th.pc with
  | idle => rw [hpc] at hm; cases hm
  | dEnq sg i => rw [hpc] at hm; cases hm
  | dWake sg i => rw [hpc] at hm; cases hm
  | cWake => rw [hpc] at hm; cases hm
  | scan m pos => rw [hpc] at hm; cases hm
  | scanFin m pos i => rw [hpc] at hm; cases hm
  | flush m => simp [fcovers, hpc]
  | psClosed m => simpa [fcovers, covers, hpc] using hc
  | psNext m => simpa [fcovers, covers, hpc] using hc
  | psFin m i => simpa [fcovers, covers, hpc] using hc
  | ppClosed m => simp [covers, hpc] at hc
  | ppCallback m => simp [covers, hpc] at hc
  | psRecheck m => simp [covers, hpc] at hc

/-- `DueQ` is what `WakeQ` provides for every reachable state: a queued record whose delivery has completed its
wake-up, in an open instance with a `forever()` consumer -/
theorem C09_queue_forever_obtains_reachable {rc : Bool} {c : Nat} {w : List Nat} {cap pipe : Nat}
    {scripts : List (List Cmd)} {s : Sys} (hg : GoodScripts c .B scripts) (hcap : 0 < cap)
    (hr : Reachable rc w cap pipe scripts s) (th : Thread) (hth : s.threads[c]? = some th)
    (hmode : th.pc.inForever = true) (hopen : s.closed = false) (r : Rec) (hq : r ∈ s.q) (hw : r.2 ∈ s.woken) :
    ∃ n, n ≤ qcost s th r.1 + 1 ∧ ∃ r' ∈ soloYieldsQ rc s c n, r'.1 = r.1 := by
  have hinv := wakeq_reachable hg hcap hr
  have hlt := hinv.inRange r hq
  have hann : 0 < s.pipe ∨ fcovers th r.1 = true := by
    rcases hinv.announced r hq hw with h | h | ⟨th', hth', hc⟩
    · rw [hopen] at h; cases h
    · exact Or.inl h
    · rw [hth] at hth'; injection hth' with e; subst e
      exact Or.inr (fcovers_of_covers th r.1 hmode hc)
  exact C09_queue_forever_obtains rc (qcost s th r.1) s c th r.1 hth
    ⟨hmode, hopen, hlt, Or.inr ⟨⟨r, hq, rfl⟩, hann⟩⟩ (Nat.le_refl _)

end SigHook.IterQ
