import SigHook.Model.Default
import SigHook.Gen.Platform
import SigHook.Model.Skel
/-!
# C16 — Default-action emulation matches what the kernel would have done

> For every signal the library knows by name, emulating its default action has the same
> externally visible outcome as the operating system's default disposition for that signal on
> this platform - the process is terminated by that very signal, is stopped, or simply continues -
> also when called from inside that signal's own handler where the signal is blocked. For a signal
> it does not know it returns an error and does nothing else, and a known name is always the
> platform's name for that number.

`Gen.details` is regenerated from `signal_details.rs` on every run; the quantifier over "every
signal the library knows" *is* that finite table, so `decide` over the whole table is a proof.
The unknown-signal theorem quantifies over all of `Int`.
-/
namespace SigHook.Default
open SigHook.Gen

/-- **C16.matches_kernel** — for every row of the table, in both calling contexts, the
emulation's outcome is the kernel's default outcome for that number. -/
theorem C16_matches_kernel :
    ∀ row ∈ Gen.details, ∀ ctx ∈ [Ctx.normal, Ctx.inHandler],
      emulate Gen.details row.2.1 ctx = kernelDefault row.2.1 := by decide

/-- the same in terms of signal numbers: every known number -/
theorem C16_matches_kernel_num (n : Int) (ctx : Ctx) (h : known Gen.details n = true) :
    emulate Gen.details n ctx = kernelDefault n := by
  have hrow : ∃ row ∈ Gen.details, row.2.1 = n := by
    simp only [known, findKind, Option.isSome_map, List.find?_isSome] at h
    obtain ⟨row, hmem, heq⟩ := h
    exact ⟨row, hmem, by simpa using heq⟩
  obtain ⟨row, hmem, rfl⟩ := hrow
  have := C16_matches_kernel row hmem ctx (by cases ctx <;> simp)
  exact this

/-- **C16.unknown_is_error** — for every integer the table does not list (other than the two
unconditional ones, SIGKILL/SIGSTOP, which are in the table), the result is an error. -/
theorem C16_unknown_is_error (n : Int) (ctx : Ctx) (h : known Gen.details n = false)
    (hk : n ≠ sigKILL) (hs : n ≠ sigSTOP) : emulate Gen.details n ctx = .err := by
  simp only [known] at h
  have hn : findKind Gen.details n = none := by
    cases hf : findKind Gen.details n with
    | none => rfl
    | some k => rw [hf] at h; cases h
  simp [emulate, hk, hs, hn]

/-- SIGKILL and SIGSTOP are in the table, so the unconditional first branch never hides an
unknown signal -/
theorem C16_kill_stop_known : known Gen.details sigKILL = true ∧ known Gen.details sigSTOP = true := by
  decide

/-- **C16.names** — every row's name is the platform's name for its number. -/
theorem C16_names : ∀ row ∈ Gen.details, (row.1, row.2.1) ∈ Gen.platform := by decide

/-- no number is listed twice (so "the" row of a number is well defined) -/
theorem C16_numbers_unique : (Gen.details.map (·.2.1)).Nodup := by decide

/-! ## non-vacuity -/
example : known Gen.details 15 = true ∧ emulate Gen.details 15 .inHandler = .killedBy 15 := by decide
example : known Gen.details 20 = true ∧ emulate Gen.details 20 .inHandler = .stopped := by decide
example : known Gen.details 300 = false ∧ emulate Gen.details 300 .normal = .err := by decide

/-! ## Round sixteen: statements that do not go through the finite table

The theorems above decide the property for the regenerated table by evaluation. The ones below are proved
for *every* table `d` (any length, any rows) and every integer, so a change to the table's contents cannot make
them true by accident, and they say which facts about a table the property actually rests on. -/

/-- **C16.context_independent** — for every table, every integer and both calling contexts the outcome is the
same: being inside the signal's own handler (signal blocked, dispatcher installed) never changes what the
emulation does. -/
theorem C16_context_independent (d : List (String × Int × DefaultKind)) (n : Int) :
    emulate d n .inHandler = emulate d n .normal := by
  unfold emulate
  by_cases h : n = sigSTOP ∨ n = sigKILL
  · rcases h with h | h <;> subst h <;> simp [raiseEffect, sigSTOP, sigKILL]
  · simp only [h, if_false]

/-- the class the kernel's default action of `n` falls in (`none`: not a signal number) -/
def kernelKind (n : Int) : Option DefaultKind :=
  match kernelDefault n with
  | .continues => some .ignore
  | .stopped => some .stop
  | .killedBy _ => some .term
  | .err => none

/-- a table is *faithful* when every row's class is the kernel's class for the row's number -/
def Faithful (d : List (String × Int × DefaultKind)) : Prop :=
  ∀ row ∈ d, kernelKind row.2.1 = some row.2.2

theorem findKind_mem (d : List (String × Int × DefaultKind)) (n : Int) (k : DefaultKind)
    (h : findKind d n = some k) : ∃ row ∈ d, row.2.1 = n ∧ row.2.2 = k := by
  simp only [findKind, Option.map_eq_some_iff] at h
  obtain ⟨row, hf, hk⟩ := h
  exact ⟨row, List.mem_of_find?_eq_some hf, by simpa using List.find?_some hf, hk⟩

/-- **C16.faithful_table_matches_kernel** — for *every* faithful table, every number it lists and both contexts,
the emulation's outcome is the kernel's default outcome. This is the parametric form of `C16_matches_kernel`:
the only fact about the table it uses is `Faithful`. -/
theorem C16_faithful_table_matches_kernel (d : List (String × Int × DefaultKind)) (hd : Faithful d)
    (n : Int) (ctx : Ctx) (h : known d n = true) : emulate d n ctx = kernelDefault n := by
  have hc : emulate d n ctx = emulate d n .normal := by
    cases ctx
    · rfl
    · exact C16_context_independent d n
  rw [hc]
  simp only [known, Option.isSome_iff_exists] at h
  obtain ⟨k, hk⟩ := h
  obtain ⟨row, hmem, rfl, rfl⟩ := findKind_mem d n k hk
  have hf := hd row hmem
  unfold emulate
  by_cases h9 : row.2.1 = sigSTOP ∨ row.2.1 = sigKILL
  · rcases h9 with h9 | h9 <;> rw [h9] <;> simp [raiseEffect, sigSTOP, sigKILL, kernelDefault]
  · simp only [h9, if_false, hk]
    have hn19 : row.2.1 ≠ 19 := fun e => h9 (Or.inl e)
    have hn9 : row.2.1 ≠ 9 := fun e => h9 (Or.inr e)
    unfold kernelKind at hf
    cases hkd : kernelDefault row.2.1 with
    | continues => rw [hkd] at hf; cases hf' : row.2.2 <;> simp_all
    | stopped =>
      rw [hkd] at hf
      have : row.2.2 = .stop := by simpa using hf.symm
      simp [this, raiseEffect, sigSTOP]
    | killedBy m =>
      rw [hkd] at hf
      have : row.2.2 = .term := by simpa using hf.symm
      simp [this, raiseEffect, hn9, hn19, hkd]
    | err => rw [hkd] at hf; cases hf

/-- the regenerated table is faithful (finite table: evaluation is a proof) -/
theorem C16_details_faithful : Faithful Gen.details := by
  unfold Faithful; decide

/-- **C16.killed_by_that_very_signal** — whenever emulating a known signal ends in termination, the terminating
signal is that very number: never SIGABRT from the fallback `abort()`, never a neighbour. -/
theorem C16_killed_by_that_very_signal (n m : Int) (ctx : Ctx) (h : known Gen.details n = true)
    (hk : emulate Gen.details n ctx = .killedBy m) : m = n := by
  rw [C16_faithful_table_matches_kernel Gen.details C16_details_faithful n ctx h] at hk
  unfold kernelDefault at hk
  split at hk
  · cases hk
  · split at hk
    · cases hk
    · split at hk
      · cases hk
      · split at hk
        · injection hk with e; exact e.symm
        · cases hk

/-- **C16.abort_fallback_unreachable** — with a faithful table the trailing `abort()` is never what ends the
process: for a terminating known signal other than SIGABRT itself, the outcome is not "killed by SIGABRT". -/
theorem C16_abort_fallback_unreachable (n : Int) (ctx : Ctx) (h : known Gen.details n = true)
    (hne : n ≠ sigABRT) : emulate Gen.details n ctx ≠ .killedBy sigABRT := by
  intro hk
  exact hne (C16_killed_by_that_very_signal n sigABRT ctx h hk).symm

/-- an unfaithful table is detected by the parametric theorem's hypothesis, and really does misbehave: a table
that files SIGCHLD (17) under `term` kills the process with SIGABRT where the kernel would let it continue -/
example : ¬ Faithful [("SIGCHLD", 17, .term)] := by unfold Faithful; decide
example : emulate [("SIGCHLD", 17, .term)] 17 .normal = .killedBy sigABRT ∧ kernelDefault 17 = .continues := by decide

/-- **C16.emulation_skeleton** — tie to the source (regenerated): `emulate_default_handler` raises SIGKILL /
SIGSTOP directly; otherwise it looks the number up *exactly* (`d.signal == signal`, no narrowing), answers
`EINVAL` for a number that is not in the table, returns for an ignored signal, raises SIGSTOP for a stopping
one, and for a terminating one restores the default disposition, unblocks *that one* signal, raises it, and
aborts if the process is still there. -/
theorem C16_emulation_skeleton :
    skelOf "src/low_level/signal_details.rs" "emulate_default_handler" =
      ["kill.stop.raise", "lookup.exact", "unknown.einval", "ignore.ok", "stop.raise", "term.restore",
       "term.unblock.one", "term.raise", "term.abort"] := by decide

end SigHook.Default
