import SigHook.Model.Default
import SigHook.Gen.Platform
import SigHook.Model.Skel
/-!
# C16 — Default-action emulation matches what the kernel would have done

> For every signal the library knows by name, emulating its default action has the same
> externally visible outcome as the operating system's default disposition for that signal on
> this platform - the process is terminated by that very signal, is stopped, or simply continues -
> also when called from inside that signal's own handler where the signal is blocked. For a signal
> it does not know it returns an error and does nothing else, and a known name is always the
> platform's name for that number.

`Gen.details` is regenerated from `signal_details.rs` on every run; the quantifier over "every
signal the library knows" *is* that finite table, so `decide` over the whole table is a proof.
The unknown-signal theorem quantifies over all of `Int`.
-/
namespace SigHook.Default
open SigHook.Gen

/-- **C16.matches_kernel** — for every row of the table, in both calling contexts, the
emulation's outcome is the kernel's default outcome for that number. -/
theorem C16_matches_kernel :
    ∀ row ∈ Gen.details, ∀ ctx ∈ [Ctx.normal, Ctx.inHandler],
      emulate Gen.details row.2.1 ctx = kernelDefault row.2.1 := by decide

/-- the same in terms of signal numbers: every known number -/
theorem C16_matches_kernel_num (n : Int) (ctx : Ctx) (h : known Gen.details n = true) :
    emulate Gen.details n ctx = kernelDefault n := by
  have hrow : ∃ row ∈ Gen.details, row.2.1 = n := by
    simp only [known, findKind, Option.isSome_map, List.find?_isSome] at h
    obtain ⟨row, hmem, heq⟩ := h
    exact ⟨row, hmem, by simpa using heq⟩
  obtain ⟨row, hmem, rfl⟩ := hrow
  have := C16_matches_kernel row hmem ctx (by cases ctx <;> simp)
  exact this

/-- **C16.unknown_is_error** — for every integer the table does not list (other than the two
unconditional ones, SIGKILL/SIGSTOP, which are in the table), the result is an error. -/
theorem C16_unknown_is_error (n : Int) (ctx : Ctx) (h : known Gen.details n = false)
    (hk : n ≠ sigKILL) (hs : n ≠ sigSTOP) : emulate Gen.details n ctx = .err := by
  simp only [known] at h
  have hn : findKind Gen.details n = none := by
    cases hf : findKind Gen.details n with
    | none => rfl
    | some k => rw [hf] at h; cases h
  simp [emulate, hk, hs, hn]

/-- SIGKILL and SIGSTOP are in the table, so the unconditional first branch never hides an
unknown signal -/
theorem C16_kill_stop_known : known Gen.details sigKILL = true ∧ known Gen.details sigSTOP = true := by
  decide

/-- **C16.names** — every row's name is the platform's name for its number. -/
theorem C16_names : ∀ row ∈ Gen.details, (row.1, row.2.1) ∈ Gen.platform := by decide

/-- no number is listed twice (so "the" row of a number is well defined) -/
theorem C16_numbers_unique : (Gen.details.map (·.2.1)).Nodup := by decide

/-! ## non-vacuity -/
example : known Gen.details 15 = true ∧ emulate Gen.details 15 .inHandler = .killedBy 15 := by decide
example : known Gen.details 20 = true ∧ emulate Gen.details 20 .inHandler = .stopped := by decide
example : known Gen.details 300 = false ∧ emulate Gen.details 300 .normal = .err := by decide

/-- **C16.emulation_skeleton** — tie to the source (regenerated): `emulate_default_handler` raises SIGKILL /
SIGSTOP directly; otherwise it looks the number up *exactly* (`d.signal == signal`, no narrowing), answers
`EINVAL` for a number that is not in the table, returns for an ignored signal, raises SIGSTOP for a stopping
one, and for a terminating one restores the default disposition, unblocks *that one* signal, raises it, and
aborts if the process is still there. -/
theorem C16_emulation_skeleton :
    skelOf "src/low_level/signal_details.rs" "emulate_default_handler" =
      ["kill.stop.raise", "lookup.exact", "unknown.einval", "ignore.ok", "stop.raise", "term.restore",
       "term.unblock.one", "term.raise", "term.abort"] := by decide

end SigHook.Default
