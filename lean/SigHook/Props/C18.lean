import SigHook.Lemmas.HalfLock
import SigHook.Model.Skel
import SigHook.Lemmas.RegistryConcLive
import SigHook.Lemmas.RegistryConcQuiet
import SigHook.Props.C02
/-!
# C18 — Registry calls always terminate when overlapping deliveries terminate

> Every register, unregister and iterator add/drop call returns after finitely many steps in every
> execution in which each overlapping delivery itself finishes: concurrent mutators on any threads
> never deadlock with each other or with deliveries, and a panic in one mutator never wedges later
> ones. Once the deliveries that were in flight when a mutator published its change have returned
> and no new one arrives, the mutator completes on its own, without needing any other thread to act.

Half-lock level (L3), for any number of threads, any scripts, every interleaving.
`write`'s spin loop is the only place a mutator waits; readers (deliveries) never wait.
-/
namespace SigHook.HalfLock

def Thread.finished (th : Thread) : Bool := th.pc == .idle && th.script.isEmpty

/-- every program counter other than `idle` names an operation that is always enabled: nobody
but a thread about to take the writer mutex ever waits for another thread -/
theorem enabled_of_not_idle (ye : Nat) (s : Sys) (t : Nat) (th : Thread)
    (hth : s.threads[t]? = some th) (hpc : th.pc ≠ .idle) : (step ye s t).isSome = true := by
  unfold step
  simp only [hth]
  cases h : th.pc with
  | idle => exact absurd h hpc
  | rUse slot p uses => cases uses <;> simp
  | _ => simp

theorem enabled_idle_read (ye : Nat) (s : Sys) (t : Nat) (th : Thread) (uses : Nat) (rest : List Cmd)
    (hth : s.threads[t]? = some th) (hpc : th.pc = .idle) (hs : th.script = .read uses :: rest) :
    (step ye s t).isSome = true := by
  unfold step; simp [hth, hpc, hs]

theorem enabled_idle_write (ye : Nat) (s : Sys) (t : Nat) (th : Thread) (st b : Bool) (rest : List Cmd)
    (hth : s.threads[t]? = some th) (hpc : th.pc = .idle) (hs : th.script = .write st b :: rest)
    (hm : s.mutexOwner = none) : (step ye s t).isSome = true := by
  unfold step; simp [hth, hpc, hs, hm]

/-- how a step changes the mutex owner and the thread table's size -/
theorem step_owner (ye : Nat) (s s' : Sys) (t : Nat) (o : Obs) (h : step ye s t = some (s', o)) :
    s'.threads.length = s.threads.length ∧ t < s.threads.length ∧
    (s'.mutexOwner = s.mutexOwner ∨ s'.mutexOwner = some t ∨ s'.mutexOwner = none) := by
  unfold step at h
  cases hth : s.threads[t]? with
  | none => simp [hth] at h
  | some th =>
    obtain ⟨ht, _⟩ := List.getElem?_eq_some_iff.1 hth
    simp only [hth] at h
    refine ⟨?_, ht, ?_⟩
    all_goals
      cases hpc : th.pc with
      | idle =>
        simp only [hpc] at h
        cases hsc : th.script with
        | nil => simp [hsc] at h
        | cons c rest =>
          cases c with
          | read uses => simp [hsc] at h; obtain ⟨rfl, _⟩ := h; simp
          | write st bomb =>
            simp only [hsc] at h
            cases hmo : s.mutexOwner with
            | some w => simp [hmo] at h
            | none => simp [hmo] at h; obtain ⟨rfl, _⟩ := h; simp
      | rUse slot p uses =>
        cases uses <;> (simp [hpc] at h; obtain ⟨rfl, _⟩ := h; simp [Sys.setLock])
      | _ => simp [hpc] at h; obtain ⟨rfl, _⟩ := h; simp [Sys.setLock]

theorem owner_valid {ye : Nat} {scripts : List (List Cmd)} {s : Sys}
    (hr : Reachable ye scripts s) : ∀ w, s.mutexOwner = some w → w < s.threads.length := by
  induction hr with
  | init => intro w h; simp [Sys.init] at h
  | step _ hs ih =>
    intro w hw
    obtain ⟨hl, ht, ho⟩ := step_owner _ _ _ _ _ hs
    rcases ho with ho | ho | ho
    · rw [ho] at hw; rw [hl]; exact ih w hw
    · rw [ho] at hw; injection hw with hw; subst hw; rw [hl]; exact ht
    · rw [ho] at hw; cases hw

/-- **C18.no_deadlock** — in every reachable state in which some thread is unfinished, some
thread has an enabled step. -/
theorem C18_no_deadlock {ye : Nat} {scripts : List (List Cmd)} {s : Sys}
    (hr : Reachable ye scripts s) (i : Nat) (hi : i < s.threads.length)
    (hunf : (s.threads[i]).finished = false) : ∃ t, (step ye s t).isSome = true := by
  have hinv := inv_reachable hr
  cases hmo : s.mutexOwner with
  | some w =>
    -- the owner is inside its critical section, whose every step is enabled
    have hw := owner_valid hr w hmo
    have hc := (hinv.mutex w hw).2 hmo
    refine ⟨w, enabled_of_not_idle ye s w s.threads[w] (by simp [hw]) ?_⟩
    intro hidle; rw [hidle] at hc; cases hc
  | none =>
    refine ⟨i, ?_⟩
    have hth : s.threads[i]? = some s.threads[i] := by simp [hi]
    by_cases hpc : (s.threads[i]).pc = .idle
    · cases hsc : (s.threads[i]).script with
      | nil => simp [Thread.finished, hpc, hsc] at hunf
      | cons c rest =>
        cases c with
        | read uses => exact enabled_idle_read ye s i _ uses rest hth hpc hsc
        | write st b => exact enabled_idle_write ye s i _ st b rest hth hpc hsc hmo
    · exact enabled_of_not_idle ye s i _ hth hpc

/-- **C18.lock_order / mutual exclusion** — at most one thread is inside `write()`..unlock -/
theorem C18_mutual_exclusion {ye : Nat} {scripts : List (List Cmd)} {s : Sys}
    (hr : Reachable ye scripts s) (i j : Nat) (hi : i < s.threads.length) (hj : j < s.threads.length)
    (ci : (s.threads[i]).pc.crit = true) (cj : (s.threads[j]).pc.crit = true) : i = j := by
  have hinv := inv_reachable hr
  have a := (hinv.mutex i hi).1 ci
  have b := (hinv.mutex j hj).1 cj
  rw [a] at b; injection b

/-! ## Quiescent completion: with no reader inside a read section, a writer finishes alone -/

/-- run thread `t` alone for `n` steps -/
def solo (ye : Nat) (s : Sys) (t : Nat) : Nat → Sys
  | 0 => s
  | n + 1 => match step ye s t with
    | some (s', _) => solo ye s' t n
    | none => s

/-- one solo step of a writer, with both slots idle, keeps them idle and uses up one unit -/
theorem solo_step (ye : Nat) (s : Sys) (t : Nat) (ht : t < s.threads.length)
    (hc : (s.threads[t]).pc.crit = true) (h0 : s.lock0 = 0) (h1 : s.lock1 = 0) :
    ∃ s' o, step ye s t = some (s', o) ∧ s'.lock0 = 0 ∧ s'.lock1 = 0 ∧
      ∃ ht' : t < s'.threads.length,
        rem (s'.threads[t]).pc + 1 = rem (s.threads[t]).pc ∧
        ((s'.threads[t]).pc.crit = true ∨ (s'.threads[t]).pc = .idle) := by
  have hth : s.threads[t]? = some s.threads[t] := by simp [ht]
  unfold step
  simp only [hth]
  cases hpc : (s.threads[t]).pc with
  | idle => rw [hpc] at hc; cases hc
  | rInc g u => rw [hpc] at hc; cases hc
  | rData sl u => rw [hpc] at hc; cases hc
  | rUse sl p u => rw [hpc] at hc; cases hc
  | wLoad st b => cases st <;> simp [h0, h1, ht, rem, Pc.crit]
  | wFlip old z0 z1 => cases z0 <;> cases z1 <;> simp [h0, h1, ht, rem, Pc.crit]
  | wHint old z0 z1 it => cases z0 <;> cases z1 <;> simp [h0, h1, ht, rem, Pc.crit]
  | wLoop0 old z0 z1 it => cases z0 <;> cases z1 <;> simp [h0, h1, ht, rem, Pc.crit, afterLoop]
  | wLoop1 old z0 z1 it => cases z0 <;> cases z1 <;> simp [h0, h1, ht, rem, Pc.crit, afterLoop]
  | wSeen1 old z0 => cases z0 <;> simp [h0, h1, ht, rem, Pc.crit]
  | _ => simp [h0, h1, ht, rem, Pc.crit]

/-- **C18.quiescent_completion** — from any state in which a writer is anywhere inside
`write()`/`store()` and no reader is between its `fetch_add` and `fetch_sub` (both counters 0),
the writer *alone* returns within 8 of its own steps (nobody else needs to act). -/
theorem C18_quiescent_completion (ye : Nat) (s : Sys) (t : Nat) (ht : t < s.threads.length)
    (hc : (s.threads[t]).pc.crit = true) (h0 : s.lock0 = 0) (h1 : s.lock1 = 0) :
    ∃ n, n ≤ 8 ∧ ∃ ht' : t < (solo ye s t n).threads.length, ((solo ye s t n).threads[t]).pc = .idle := by
  suffices H : ∀ k (s : Sys) (ht : t < s.threads.length), (s.threads[t]).pc.crit = true → s.lock0 = 0 →
      s.lock1 = 0 → rem (s.threads[t]).pc = k →
      ∃ ht' : t < (solo ye s t k).threads.length, ((solo ye s t k).threads[t]).pc = .idle from
    ⟨rem (s.threads[t]).pc, rem_le _, H _ s ht hc h0 h1 rfl⟩
  intro k
  induction k with
  | zero =>
    intro s ht hc _ _ hr
    have := rem_pos _ hc; omega
  | succ k ih =>
    intro s ht hc h0 h1 hr
    obtain ⟨s', o, hs, h0', h1', ht', hrem, hnext⟩ := solo_step ye s t ht hc h0 h1
    simp only [solo, hs]
    rcases hnext with hcr | hidle
    · exact ih s' ht' hcr h0' h1' (Nat.add_right_cancel (hrem.trans hr))
    · -- finished: the remaining solo steps of an idle thread with whatever script change nothing we need
      have hk : k = 0 := by
        have e := hrem.trans hr
        rw [hidle] at e; simp [rem] at e; omega
      subst hk
      exact ⟨ht', hidle⟩

/-- **C18.reader_wait_free** — a read section (a delivery's use of the registry) is wait-free:
every one of its steps is enabled whatever the other threads do. -/
theorem C18_reader_wait_free (ye : Nat) (s : Sys) (t : Nat) (th : Thread)
    (hth : s.threads[t]? = some th) (hpc : th.pc.crit = false) (hn : th.pc ≠ .idle) :
    (step ye s t).isSome = true := enabled_of_not_idle ye s t th hth hn

/-- **C18.panic_does_not_wedge** — a poisoned writer mutex never disables anything: enabledness
of every step is independent of the poison flag. -/
theorem C18_poison_irrelevant (ye : Nat) (s : Sys) (t : Nat) (b : Bool) :
    (step ye { s with poisoned := b } t).isSome = (step ye s t).isSome := by
  unfold step
  cases hth : s.threads[t]? with
  | none => simp [hth]
  | some th =>
    simp only [hth]
    cases hpc : th.pc with
    | idle =>
      cases hsc : th.script with
      | nil => simp
      | cons c rest =>
        cases c with
        | read u => simp
        | write st bm => cases hmo : s.mutexOwner <;> simp [hmo]
    | rUse sl p u => cases u <;> simp
    | _ => simp

/-! ## non-vacuity -/
example : ∃ s, Reachable 16 [[.write true true], [.write true false], [.write true false]] s ∧ s.poisoned = true := by
  refine ⟨(runSchedule 16 (Sys.init [[.write true true], [.write true false], [.write true false]])
    ([0,0,0,0,0,0,0,0,0] ++ [1,1,1,1,1,1,1,1,1])).1, ?_, by decide⟩
  have key : ∀ (sched : List Nat) (s : Sys), Reachable 16 [[.write true true], [.write true false], [.write true false]] s →
      Reachable 16 [[.write true true], [.write true false], [.write true false]] (runSchedule 16 s sched).1 := by
    intro sched
    induction sched with
    | nil => intro s h; exact h
    | cons t rest ih =>
      intro s h
      simp only [runSchedule]
      cases hs : step 16 s t with
      | none => exact h
      | some r => obtain ⟨s', o⟩ := r; exact ih s' (Reachable.step h hs)
  exact key _ _ Reachable.init

end SigHook.HalfLock

/-!
## Registry level (L6)

The same two statements for the whole registry - two half-locks, the nested `race_fallback`
lock, `sigaction` calls, deliveries - in every reachable state of `Model/RegistryConc.lean`, for
any number of threads and any scripts.
-/
namespace SigHook.RegConc
open SigHook.Registry (Disp Env)
open SigHook.HalfLock (phaseAt)

/-- **C18.registry_waits_only_for_data_mutex** — the one and only step of any registry operation
that can be refused is taking `data`'s writer mutex while another mutator holds it. Everything
else - every step of a delivery, the barrier loop, the nested lock of `race_fallback` (always free
when asked for: the lock order), both `sigaction` calls, the release - is enabled in every
reachable state whatever the other threads do. -/
theorem C18_registry_waits_only_for_data_mutex {env : Env} {ye : Nat} {disp : List (Int × Disp)}
    {scripts : List (List Op)} {s : Sys} {t : Nat} {th : Thread}
    (hr : Reachable env ye disp scripts s) (hth : s.threads[t]? = some th)
    (hne : th.pc ≠ .idle ∨ th.script ≠ [])
    (hl : ∀ op, th.pc = .mLockD op → s.hd.mutexOwner = none) :
    ∃ s' out, step env ye s t = some (s', out) := by
  have ok := ownok_reachable hr
  exact step_enabled6 (inv6_reachable hr) (by rw [ok.2]; exact ok.1) hth hne hl

/-- **C18.registry_no_deadlock** — in every reachable state in which some thread has not
finished, some thread can step: mutators never deadlock with each other or with deliveries. -/
theorem C18_registry_no_deadlock {env : Env} {ye : Nat} {disp : List (Int × Disp)}
    {scripts : List (List Op)} {s : Sys} {t : Nat} {th : Thread}
    (hr : Reachable env ye disp scripts s) (hth : s.threads[t]? = some th)
    (hne : th.pc ≠ .idle ∨ th.script ≠ []) :
    ∃ t' s' out, step env ye s t' = some (s', out) := by
  have ok := ownok_reachable hr
  exact no_deadlock6 (inv6_reachable hr) (by rw [ok.2]; exact ok.1) hth hne

/-- **C18.registry_lock_order** — `race_fallback`'s writer section is only ever entered from
inside `data`'s, and at most one thread is inside `data`'s. -/
theorem C18_registry_lock_order {env : Env} {ye : Nat} {disp : List (Int × Disp)}
    {scripts : List (List Op)} {s : Sys} {i j : Nat} {thj : Thread}
    (hr : Reachable env ye disp scripts s) (hj : s.threads[j]? = some thj)
    (hc : Phase.crit (phaseAt s.hf j) = true) :
    Phase.crit (phaseAt s.hd j) = true ∧ (Phase.crit (phaseAt s.hd i) = true → i = j) := by
  have hI := inv6_reachable hr
  have hd := hf_crit_hd_crit hI hj hc
  exact ⟨hd, fun hi => crit_unique hI.emb.hd hi hd⟩


/-- **C18.lock_order_source** — tie to the source (regenerated): every mutator takes `data`'s
writer lock first; `race_fallback`'s is taken only by `register_unchecked_impl`, after it; the
dispatcher takes no writer lock at all. -/
theorem C18_lock_order_source :
    (∀ fn ∈ ["register_unchecked_impl", "unregister", "unregister_signal"],
      (skelOf regFile fn).head? = some "data.write") ∧
    (∀ fn ∈ ["unregister", "unregister_signal", "handler"], ¬ (skelOf regFile fn).contains "fallback.write") ∧
    ¬ (skelOf regFile "handler").contains "data.write" := by decide

/-- **C18.registry_quiescent_completion** — "once the deliveries that were in flight when a mutator published
its change have returned and no new one arrives, the mutator completes on its own", at registry level: in
every reachable state in which thread `t` is anywhere inside `register` / `unregister` / `unregister_signal`
(including a first registration with its nested `race_fallback` write and its two `sigaction` calls), no
delivery is inside a read section of either half-lock, and `data`'s writer mutex is free or `t`'s own, the
thread *alone* returns from its operation within `meas` (at most 36) of its own steps - nobody else has to act, and its
remaining script is untouched. -/
theorem C18_registry_quiescent_completion {env : Env} {ye : Nat} {disp : List (Int × Disp)}
    {scripts : List (List Op)} {s : Sys} (hr : Reachable env ye disp scripts s) (t : Nat) (th : Thread)
    (hth : s.threads[t]? = some th) (hm : isMut th.pc = true) (hq : Quiet s)
    (ho : s.hd.mutexOwner = none ∨ s.hd.mutexOwner = some t) :
    ∃ n, n ≤ meas s t th.pc ∧ meas s t th.pc ≤ 36 ∧
      ∃ th', (solo6 env ye s t n).threads[t]? = some th' ∧ th'.pc = .idle ∧ th'.script = th.script := by
  obtain ⟨n, hn, h⟩ := quiescent_completion6 (meas s t th.pc) s hr t th hth hm hq ho (Nat.le_refl _)
  exact ⟨n, hn, meas_le _ _ _, h⟩

/-- non-vacuity: the first registration of the demo system, two steps in (it holds `data`'s writer mutex), with
nobody else around, meets the hypotheses; its measure is 19 and it finishes alone in exactly 19 steps -/
example :
    let s := (runSched demoEnv demoSys [0, 0]).1
    (s.threads[0]?.map (fun th => isMut th.pc)) = some true ∧ s.hd.lock0 = 0 ∧ s.hd.lock1 = 0 ∧ s.hf.lock0 = 0 ∧
      s.hf.lock1 = 0 ∧ s.hd.mutexOwner = some 0 ∧
      (s.threads[0]?.map (fun th => meas s 0 th.pc)) = some 19 ∧
      ((solo6 demoEnv 16 s 0 19).threads[0]?.map (fun th => (isMut th.pc, th.script.length))) = some (false, 1) := by
  decide

end SigHook.RegConc
