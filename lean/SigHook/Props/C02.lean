import SigHook.Model.RegistryConc
import SigHook.Model.Skel
import SigHook.Lemmas.RegistrySeq
import SigHook.Lemmas.RegistryConcHand
import SigHook.Props.C01
/-!
# C02 — Each delivery runs exactly one consistent snapshot of the actions, in order

> Every delivery of a signal runs precisely the actions of one registry state that was current at
> some instant during that delivery: each action whose registration had returned before the
> delivery began and whose removal had not begun before it ended runs exactly once, no action runs
> whose registration had not started or whose removal had returned, and the actions run in the
> order they were registered. Actions registered for other signals are never run.

Model: L6 (`Model/RegistryConc.lean`), any number of threads, every interleaving. A delivery is
`fallback.read(); data.read(); dispatch; drop; drop`. The instant of the property is the
delivery's `data.load()` step: what it pins there is the published snapshot (`C02_pins_current`),
the plan it then executes is computed from that snapshot alone (`C02_plan_from_pinned`) and is
executed action by action, in order, each exactly once (`C02_runs_plan`); snapshots are never
modified after allocation (`C02_contents_immutable`); within a snapshot the action order is the
order of registration (`C02_register_appends`).
-/
namespace SigHook.RegConc
open SigHook.Registry (lookup update btInsert btRemove KeysBelow btInsert_fresh)

/-- **C02.plan_from_pinned** — the dispatcher's plan (chained handler + action list) is a function
of the two pinned snapshots only: the actions of the signal's slot in the pinned `data` snapshot,
in map order; nothing registered for another signal. -/
theorem C02_plan_from_pinned (s : Sys) (t : Nat) (sig : Int) (slotD slotF p pf : Nat) (d : SigData)
    (hd : hlPc s.hd t = .rUse slotD p 0) (hc : lookupN p s.cd = some d)
    (hf : hlPc s.hf t = .rUse slotF pf 0) (slot : Registry.Slot)
    (hs : lookup sig d.signals = some slot) :
    dispatchPlan s t sig = (Registry.prevCalled slot.prev, slot.actions.map (·.2)) := by
  simp [dispatchPlan, hd, hc, hf, hs]

/-- with no slot for the signal in the pinned snapshot no action runs at all -/
theorem C02_no_slot_no_actions (s : Sys) (t : Nat) (sig : Int) (slotD p : Nat) (d : SigData)
    (hd : hlPc s.hd t = .rUse slotD p 0) (hc : lookupN p s.cd = some d)
    (hs : lookup sig d.signals = none) : (dispatchPlan s t sig).2 = [] := by
  simp only [dispatchPlan, hd, hc, Option.getD, hs]
  split
  · split <;> rfl
  · rfl

/-- **C02.runs_plan** — a delivery holding a plan executes it one action per step, in order, each
exactly once: the next step of `dPlan sig none (tag :: rest)` is `run tag` and leaves `rest`. -/
theorem C02_runs_plan (env : Registry.Env) (ye : Nat) (s : Sys) (t : Nat) (th : Thread) (sig : Int)
    (tag : Nat) (rest : List Nat) (hth : s.threads[t]? = some th) (hpc : th.pc = .dPlan sig none (tag :: rest)) :
    ∃ s', step env ye s t = some (s', { ev := .run tag }) ∧
      s'.threads[t]? = some { th with pc := .dPlan sig none rest } ∧ s'.hd = s.hd ∧ s'.cd = s.cd := by
  have ht : t < s.threads.length := (List.getElem?_eq_some_iff.1 hth).1
  refine ⟨setT s t { th with pc := .dPlan sig none rest }, ?_, ?_, rfl, rfl⟩
  · simp [step, hth, hpc]
  · simp [setT, ht]

/-- the chained handler, if any, is called before the first action -/
theorem C02_prev_first (env : Registry.Env) (ye : Nat) (s : Sys) (t : Nat) (th : Thread) (sig : Int)
    (d : Registry.Disp) (tags : List Nat) (hth : s.threads[t]? = some th)
    (hpc : th.pc = .dPlan sig (some d) tags) :
    ∃ s', step env ye s t = some (s', { ev := .prev d }) ∧
      s'.threads[t]? = some { th with pc := .dPlan sig none tags } := by
  have ht : t < s.threads.length := (List.getElem?_eq_some_iff.1 hth).1
  exact ⟨setT s t { th with pc := .dPlan sig none tags }, by simp [step, hth, hpc], by simp [setT, ht]⟩

/-- **C02.register_appends** — in a well-formed snapshot (ids below the counter) a registration
for a signal that already has a slot puts the new action *last*: the execution order within a
snapshot is the order of registration. -/
theorem C02_register_appends (env : Registry.Env) (cur : SigData) (c : Bool) (sig : Int) (tag : Nat)
    (slot : Registry.Slot) (hs : lookup sig cur.signals = some slot)
    (hb : KeysBelow cur.nextId slot.actions) :
    plan env cur (.register c sig tag) =
      (some { signals := update sig { slot with actions := slot.actions ++ [(cur.nextId, tag)] } cur.signals,
              nextId := cur.nextId + 1 }, .id sig cur.nextId, false) := by
  simp [plan, hs, btInsert_fresh _ _ _ hb]

/-- removal of one action keeps every other action of the signal, in the same order -/
theorem C02_unregister_keeps_order (env : Registry.Env) (cur : SigData) (sig : Int) (id : Nat)
    (slot : Registry.Slot) (hs : lookup sig cur.signals = some slot)
    (hsort : slot.actions.Pairwise (fun a b => a.1 < b.1)) (hin : (btRemove id slot.actions).2 = true) :
    plan env cur (.unregister sig id) =
      (some { cur with signals := update sig { slot with actions := slot.actions.filter (fun e => e.1 != id) } cur.signals },
       .bool true, false) := by
  simp [plan, hs, hin, Registry.btRemove_eq_filter _ _ hsort]

/-- operations never touch another signal's slot -/
theorem C02_plan_frame (env : Registry.Env) (cur new : SigData) (op : Op) (res : Ret) (sig' : Int)
    (hp : plan env cur op = (some new, res, false))
    (hne : (match op with | .register _ s _ => s | .unregister s _ => s | .unregisterSignal s => s | .deliver s => s) ≠ sig') :
    lookup sig' new.signals = lookup sig' cur.signals := by
  cases op with
  | register c sg tag =>
    simp only [plan] at hp
    cases hl : lookup sg cur.signals with
    | none => simp [hl] at hp
    | some slot =>
      simp only [hl] at hp
      split at hp
      · cases hp
      · simp only [Prod.mk.injEq, Option.some.injEq] at hp
        obtain ⟨rfl, _⟩ := hp
        simp [Registry.lookup_update, hne]
  | unregister sg id =>
    simp only [plan] at hp
    cases hl : lookup sg cur.signals with
    | none => simp [hl] at hp
    | some slot =>
      simp only [hl] at hp
      split at hp
      · simp only [Prod.mk.injEq, Option.some.injEq] at hp
        obtain ⟨rfl, _⟩ := hp
        simp [Registry.lookup_update, hne]
      · cases hp
  | unregisterSignal sg =>
    simp only [plan] at hp
    cases hl : lookup sg cur.signals with
    | none => simp [hl] at hp
    | some slot =>
      simp only [hl] at hp
      split at hp
      · cases hp
      · simp only [Prod.mk.injEq, Option.some.injEq] at hp
        obtain ⟨rfl, _⟩ := hp
        simp [Registry.lookup_update, hne]
  | deliver sg => simp [plan] at hp

/-- slots are never removed by any operation (needed for C04 and for the sticky disposition) -/
theorem C02_plan_keeps_slots (env : Registry.Env) (cur new : SigData) (op : Op) (res : Ret) (first : Bool)
    (sig' : Int) (hp : plan env cur op = (some new, res, first))
    (hs : (lookup sig' cur.signals).isSome = true) : (lookup sig' new.signals).isSome = true := by
  cases op with
  | register c sg tag =>
    simp only [plan] at hp
    cases hl : lookup sg cur.signals with
    | none => simp [hl] at hp; obtain ⟨rfl, _⟩ := hp; exact hs
    | some slot =>
      simp only [hl] at hp
      split at hp
      · cases hp
      · simp only [Prod.mk.injEq, Option.some.injEq] at hp
        obtain ⟨rfl, _⟩ := hp
        simp only [Registry.lookup_update]; split <;> simp_all
  | unregister sg id =>
    simp only [plan] at hp
    cases hl : lookup sg cur.signals with
    | none => simp [hl] at hp
    | some slot =>
      simp only [hl] at hp
      split at hp
      · simp only [Prod.mk.injEq, Option.some.injEq] at hp
        obtain ⟨rfl, _⟩ := hp
        simp only [Registry.lookup_update]; split <;> simp_all
      · cases hp
  | unregisterSignal sg =>
    simp only [plan] at hp
    cases hl : lookup sg cur.signals with
    | none => simp [hl] at hp
    | some slot =>
      simp only [hl] at hp
      split at hp
      · cases hp
      · simp only [Prod.mk.injEq, Option.some.injEq] at hp
        obtain ⟨rfl, _⟩ := hp
        simp only [Registry.lookup_update]; split <;> simp_all
  | deliver sg => simp [plan] at hp

/-! ## non-vacuity: a delivery overlapping a registration sees exactly the old or the new list -/

def demoEnv : Registry.Env :=
  { rejectsQuery := fun n => n < 1 || n > 64, rejectsSet := fun n => n < 1 || n > 64 || n == 9 || n == 19,
    forbidden := [9, 19, 4, 8, 11], libFlags := 4 }

def runSched (env : Registry.Env) : Sys → List Nat → Sys × List StepOut
  | s, [] => (s, [])
  | s, t :: rest => match step env 16 s t with
    | none => (s, [])
    | some (s', o) => let r := runSched env s' rest; (r.1, o :: r.2)

def demoSys : Sys := Sys.init [] [[.register true 10 100, .register true 10 101], [.deliver 10]]

/-- thread 1 delivers between the two registrations: it runs exactly `[100]` -/
example : ((runSched demoEnv demoSys
      (List.replicate 24 0 ++ List.replicate 11 1 ++ List.replicate 12 0)).2.filterMap
        (fun o => match o.ev with | .run t => some t | _ => none)) = [100] := by decide


/-! ## Linearizability, for every reachable state of the concurrent model

`cur s` is the registry contents reachable from the published `data` pointer. The three theorems
below say: (1) `cur` changes only at a mutator's `data.swap`, and then to exactly what the
sequential specification (`plan`, the L5 functions split into steps) makes of the contents that
were current *at that swap* — no update is ever computed from a stale snapshot and none is lost;
(2) a delivery's plan is fixed at its `data.load()` step and is the action list of `cur` at that
instant; (3) from then on it executes exactly that list. Hence the run list of a delivery is the
action list of one registry state that was current during the delivery, and every operation
takes effect at one instant between its call and its return (its swap). -/

open SigHook.Registry (Disp Env)
open SigHook.HalfLock (phaseAt)

/-- **C02.publications_linearize** — in every reachable state, a step either leaves the current
contents alone, or is a `data.swap` by a storing mutator and replaces them by one
sequential-specification step (`Pub`) of the contents current at that very moment. -/
theorem C02_publications_linearize {env : Env} {ye : Nat} {disp : List (Int × Disp)}
    {scripts : List (List Op)} {s s' : Sys} {t : Nat} {out : StepOut}
    (hr : Reachable env ye disp scripts s) (hs : step env ye s t = some (s', out)) :
    (cur s' = cur s ∧ ∀ l n old, out.ev ≠ .hd (.swap l n old)) ∨
    (∃ n res, out.ev = .hd (.swap "data" n s.hd.data) ∧ Pub env (cur s) (cur s') res) := by
  have hI := inv6_reachable hr
  cases hth : s.threads[t]? with
  | none => unfold step at hs; simp [hth] at hs
  | some th =>
    rcases cur_step hI hth (step6_of hI hth hs) with h | ⟨n, res, h1, _, h2, _⟩
    · exact Or.inl h
    · exact Or.inr ⟨n, res, h1, h2⟩

/-- **C02.delivery_pins_current** — the step at which a delivery loads `data` fixes its plan: the
action list, in order, of the signal's slot in the contents current at that instant (and of no
other signal). -/
theorem C02_delivery_pins_current {env : Env} {ye : Nat} {disp : List (Int × Disp)}
    {scripts : List (List Op)} {s s' : Sys} {t : Nat} {th : Thread} {out : StepOut} {sig : Int} {v : Nat}
    (hr : Reachable env ye disp scripts s) (hth : s.threads[t]? = some th) (hpc : th.pc = .dData sig)
    (hs : step env ye s t = some (s', out)) (hev : out.ev = .hd (.load "data" v)) :
    ∃ pv, s'.threads[t]? = some { th with pc := .dPlan sig pv (tagsFor (cur s) sig) } := by
  have hI := inv6_reachable hr
  have ht := (List.getElem?_eq_some_iff.1 hth).1
  have h6 := step6_of hI hth hs
  cases h6 with
  | dataPin sg hd' pf hpc' hcF mv =>
    rw [hpc] at hpc'; injection hpc' with hsg; subst hsg
    refine ⟨(planOf (cur s) ((lookupN pf s.cf).getD none) sig).1, ?_⟩
    rw [setT_get _ _ _ (by simpa using ht), planOf_snd]
  | dataStep sg hd' p o pf hpc' hcF mv hp ho =>
    exfalso
    simp only at hev
    rcases ho with ⟨w, rfl⟩ | ⟨l, w, rfl⟩
    · injection hev with hev; injection hev with h1 h2; simp at h1
    · injection hev with hev; cases hev
  | _ => simp_all

/-- **C02.runs_pinned_list** — at every later moment of the delivery what remains to be run is a
suffix of the pinned snapshot's action list for this signal (one action is consumed per `run`
step, `C02_runs_plan`); the snapshot is live and its recorded contents immutable. -/
theorem C02_runs_pinned_list {env : Env} {ye : Nat} {disp : List (Int × Disp)}
    {scripts : List (List Op)} {s : Sys} {t : Nat} {th : Thread} {sig : Int} {pv : Option Disp} {tags : List Nat}
    (hr : Reachable env ye disp scripts s) (hth : s.threads[t]? = some th) (hpc : th.pc = .dPlan sig pv tags) :
    ∃ p d pre, phaseAt s.hd t = .rHold p 0 ∧ lookupN p s.cd = some d ∧ pre ++ tags = tagsFor d sig :=
  let ⟨p, d, pre, h1, _, h2, h3⟩ := C01_registry_runs_pinned hr hth hpc
  ⟨p, d, pre, h1, h2, h3⟩

/-- recorded contents of a live snapshot never change (copy-on-write) -/
theorem C02_contents_immutable {env : Env} {ye : Nat} {disp : List (Int × Disp)}
    {scripts : List (List Op)} {s s' : Sys} {t x : Nat} {out : StepOut}
    (hr : Reachable env ye disp scripts s) (hs : step env ye s t = some (s', out)) (hx : x ∈ s.hd.live) :
    lookupN x s'.cd = lookupN x s.cd := by
  have hI := inv6_reachable hr
  cases hth : s.threads[t]? with
  | none => unfold step at hs; simp [hth] at hs
  | some th => exact (step6_frame (step6_of hI hth hs)).cd_live hI hx


/-! ### non-vacuity of the `Reachable` hypotheses: the demo runs are reachable states, and one of
them has a delivery in the middle of its plan while a mutator is inside its store -/

theorem reachable_runSched (env : Env) (disp : List (Int × Disp)) (scripts : List (List Op)) (sched : List Nat)
    (s : Sys) (hr : Reachable env 16 disp scripts s) : Reachable env 16 disp scripts (runSched env s sched).1 := by
  induction sched generalizing s with
  | nil => exact hr
  | cons t rest ih =>
    simp only [runSched]
    cases hs : step env 16 s t with
    | none => exact hr
    | some r => obtain ⟨s', o⟩ := r; exact ih s' (Reachable.step hr hs)

example : Reachable demoEnv 16 [] [[.register true 10 100, .register true 10 101], [.deliver 10]]
    (runSched demoEnv demoSys (List.replicate 24 0 ++ List.replicate 7 1 ++ List.replicate 6 0)).1 :=
  reachable_runSched _ _ _ _ _ Reachable.init

/-- in that state thread 1 is about to run action 100 of the snapshot it pinned while thread 0 is
past the allocation of the snapshot that also contains 101 -/
example : ((runSched demoEnv demoSys (List.replicate 24 0 ++ List.replicate 7 1 ++ List.replicate 6 0)).1.threads.map
    (fun th => match th.pc with | .dPlan _ _ tags => tags | .mRunD .. => [0] | _ => [])) = [[0], [100]] := by decide


/-! ### tie to the source: the mutators are copy - modify - publish under `data`'s writer lock -/

/-- **C02.mutator_skeleton** — the ordered calls of the three mutators (regenerated from lib.rs on
every run) are the ones the L6 model's program counters go through: take `data`'s writer lock,
clone the current contents, publish with one `store`. No mutator reads the registry outside the
lock. -/
theorem C02_mutator_skeleton :
    skelOf regFile "unregister" = ["data.write", "clone", "store"] ∧
    skelOf regFile "unregister_signal" = ["data.write", "clone", "store"] ∧
    (skelOf regFile "register_unchecked_impl").take 2 = ["data.write", "clone"] ∧
    (skelOf regFile "register_unchecked_impl").getLast? = some "store" := by decide


/-! ### the publications are steps of the *sequential* registry model (L5, the spec refined in C05) -/

/-- result values of the two models -/
def retMatches : Registry.Out → Ret → Prop
  | .id sg i, .id sg' i' => sg = sg' ∧ i = i'
  | .bool b, .bool b' => b = b'
  | _, _ => False

/-- **C02.publication_is_L5_step** — what a publication makes of the current contents is what one
operation of the sequential model `Registry.step` (the model proved to refine the simple
specification in C05) makes of a state with those contents: the concurrent registry is
linearizable *to that specification*, with the `data.swap` as linearization point. -/
theorem C02_publication_is_L5_step {env : Env} {c v : SigData} {res : Ret} (hp : Pub env c v res) :
    ∃ (s5 : Registry.State) (op : Registry.Op), s5.signals = c.signals ∧ s5.nextId = c.nextId ∧
      (Registry.step env s5 op).1.signals = v.signals ∧ (Registry.step env s5 op).1.nextId = v.nextId ∧
      retMatches (Registry.step env s5 op).2 res := by
  rcases hp with ⟨op, hp⟩ | ⟨chk, sg, tag, prev, hp, hq, hr, rfl⟩
  · cases op with
    | register chk sg tag =>
      refine ⟨⟨c.signals, c.nextId, none, []⟩, .registerUnchecked sg tag, rfl, rfl, ?_⟩
      simp only [plan] at hp
      cases hl : lookup sg c.signals with
      | none => simp [hl] at hp
      | some slot =>
        simp only [hl] at hp
        split at hp
        · cases hp
        · rename_i hb
          simp only [Prod.mk.injEq, Option.some.injEq] at hp
          obtain ⟨rfl, rfl, _⟩ := hp
          simp [Registry.step, Registry.registerUnchecked, hl, hb, retMatches]
    | unregister sg id =>
      refine ⟨⟨c.signals, c.nextId, none, []⟩, .unregister sg id, rfl, rfl, ?_⟩
      simp only [plan] at hp
      cases hl : lookup sg c.signals with
      | none => simp [hl] at hp
      | some slot =>
        simp only [hl] at hp
        split at hp
        · rename_i hb
          simp only [Prod.mk.injEq, Option.some.injEq] at hp
          obtain ⟨rfl, rfl, _⟩ := hp
          simp [Registry.step, Registry.unregister, hl, hb, retMatches]
        · cases hp
    | unregisterSignal sg =>
      refine ⟨⟨c.signals, c.nextId, none, []⟩, .unregisterSignal sg, rfl, rfl, ?_⟩
      simp only [plan] at hp
      cases hl : lookup sg c.signals with
      | none => simp [hl] at hp
      | some slot =>
        simp only [hl] at hp
        split at hp
        · cases hp
        · rename_i hb
          simp only [Prod.mk.injEq, Option.some.injEq] at hp
          obtain ⟨rfl, rfl, _⟩ := hp
          simp [Registry.step, Registry.unregisterSignal, hl, hb, retMatches]
    | deliver sg => simp [plan] at hp
  · -- a first registration: the sequential model with `prev` as the signal's disposition
    refine ⟨⟨c.signals, c.nextId, none, [(sg, prev)]⟩, .registerUnchecked sg tag, rfl, rfl, ?_⟩
    simp only [plan] at hp
    cases hl : lookup sg c.signals with
    | some slot => simp only [hl] at hp; split at hp <;> simp at hp
    | none =>
      simp only [hl, Prod.mk.injEq] at hp
      obtain ⟨_, rfl, _⟩ := hp
      simp [Registry.step, Registry.registerUnchecked, hl, hq, hr, Registry.dispOf, Registry.lookup, retMatches]

end SigHook.RegConc
