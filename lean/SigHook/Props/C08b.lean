import SigHook.Props.C08
/-!
# C08 (continued) — each `send` / `recv` finishes within a bounded number of its own steps

> send and recv each finish within a small bounded number of their own steps from every reachable state of the
> channel, with all other threads paused anywhere …

`C08_never_waits` shows that a thread with something left to do always has a step. Here is the bound: a thread
running *alone* (every other thread paused wherever it is - between any two of its atomic operations, a cell
half-written) completes its current operation within `ccost` own steps plus one per spurious failure of a weak
compare-exchange. `ccost ≤ 7`: load, (stale) CAS, CAS, cell access, load, (stale) CAS, CAS.

The relaxed loads may return stale values (any message at or after the thread's view). For the compare-exchange
the bound assumes what cache coherence gives on every machine the crate runs on: a compare-exchange that fails
observes the current value of the word (`casFresh`). The C11 abstract machine alone does not promise it - there a
failing compare-exchange may keep reading the same old value - which is why the hypothesis is explicit.
-/
namespace SigHook.Channel
open SigHook SigHook.Packed

def Pc.isCas : Pc → Bool
  | .deqCas .. | .enqCas .. => true
  | _ => false

/-- own steps left in the current operation when nothing fails spuriously -/
def ccost (s : Sys) (th : Thread) : Nat :=
  match th.pc with
  | .idle => if th.script = [] then 0 else 7
  | .deqCas q _ cur => if (lastMsg (s.hist q)).val == cur then 5 else 6
  | .write .. | .take .. => 4
  | .enqLoad .. => 3
  | .enqCas q _ _ cur => if (lastMsg (s.hist q)).val == cur then 1 else 2

theorem ccost_le (s : Sys) (th : Thread) : ccost s th ≤ 7 := by
  unfold ccost; split <;> (try split) <;> omega

def Out.done (o : Out) : Prop := o.ret ≠ none ∨ o.panic ≠ none

theorem setTh_hist (s : Sys) (t : Nat) (th : Thread) (q : Loc) : (setTh s t th).hist q = s.hist q := by
  cases q <;> rfl

theorem rdVal_fresh (s : Sys) (q : Loc) (th : Thread) (c : Choice) (h : c.read = none) :
    rdVal s q th c = (lastMsg (s.hist q)).val := by
  simp [rdVal, rdK, readIdx, h, lastMsg, lastK]

/-- a compare-exchange that cannot succeed although it reads the current value and does not fail spuriously
was holding a stale expectation -/
theorem stale_of_fail {s : Sys} {q : Loc} {th : Thread} {c : Choice} {cur : Q} (hr : c.read = none)
    (hf : canSucceed s q th c cur = false) : c.spurious = true ∨ ((lastMsg (s.hist q)).val == cur) = false := by
  simp only [canSucceed, hr, Option.isNone_none, Bool.true_or, Bool.and_true, lastMsg, lastK] at hf ⊢
  cases hsp : c.spurious
  · right; simpa [hsp] using hf
  · left; rfl

/-- one own step of a busy thread: it exists; either it completes the operation, or the thread is still
inside it and `ccost` has dropped - by one at least, unless the step was a spurious failure, which never
raises it -/
theorem op_step (o : Orders) (s : Sys) (t : Nat) (c : Choice) (th : Thread) (hth : s.threads[t]? = some th)
    (hbusy : th.pc ≠ .idle ∨ th.script ≠ []) (hfresh : th.pc.isCas = true → c.read = none) :
    ∃ s' out, step o s t c = some (s', out) ∧
      (out.done ∨ ∃ th', s'.threads[t]? = some th' ∧ th'.pc ≠ .idle ∧
        ccost s' th' ≤ ccost s th ∧ (c.spurious = false → ccost s' th' + 1 ≤ ccost s th)) := by
  have hen := C08_never_waits o s t c th hth hbusy
  cases hs : step o s t c with
  | none => rw [hs] at hen; cases hen
  | some r =>
    obtain ⟨s', out⟩ := r
    refine ⟨s', out, rfl, ?_⟩
    have hlt : t < s.threads.length := (List.getElem?_eq_some_iff.1 hth).1
    have get : ∀ (s0 : Sys) (th' : Thread), s0.threads = s.threads → (setTh s0 t th').threads[t]? = some th' := by
      intro s0 th' e; simp [setTh, e, hlt]
    have h := cstep_of hth hs
    cases h with
    | startNone q tag rest hpc hsc hz => left; left; simp
    | startGo q tag rest hpc hsc hz =>
      right
      refine ⟨_, get _ _ rfl, by simp, ?_⟩
      have hne : th.script ≠ [] := by rcases hsc with ⟨tg, h, _⟩ | ⟨h, _⟩ <;> (rw [h]; simp)
      have : ccost s th = 7 := by simp [ccost, hpc, hne]
      rw [this]
      have : ccost (setTh s t { script := rest, pc := .deqCas q tag (rdVal s q th c), view := th.view.setAt q (rdK s q th c) })
          { script := rest, pc := .deqCas q tag (rdVal s q th c), view := th.view.setAt q (rdK s q th c) } ≤ 6 := by
        simp only [ccost]; split <;> omega
      omega
    | deqOk q tag cur hpc hcs =>
      right
      refine ⟨_, get _ _ (by cases q <;> rfl), by cases tag <;> simp [afterDeq], ?_⟩
      have h1 : ((lastMsg (s.hist q)).val == cur) = true := by
        simp only [canSucceed, Bool.and_eq_true] at hcs; exact hcs.1.1
      have : ccost s th = 5 := by simp [ccost, hpc, h1]
      rw [this]
      cases tag <;> simp [afterDeq, ccost]
    | deqFailNone q tag cur hpc hcs hz => left; left; simp
    | deqFailRetry q tag cur hpc hcs hz =>
      right
      have hr := hfresh (by rw [hpc]; rfl)
      refine ⟨_, get _ _ rfl, by simp, ?_⟩
      have hnew : ccost (setTh s t { th with pc := .deqCas q tag (rdVal s q th c), view := th.view.setAt q (rdK s q th c) })
          { th with pc := .deqCas q tag (rdVal s q th c), view := th.view.setAt q (rdK s q th c) } = 5 := by
        simp [ccost, rdVal_fresh s q th c hr]
      rw [hnew]
      have hge : 5 ≤ ccost s th := by simp only [ccost, hpc]; split <;> omega
      refine ⟨hge, fun hsp => ?_⟩
      rcases stale_of_fail hr hcs with h | h
      · rw [hsp] at h; cases h
      · simp [ccost, hpc, h]
    | write idx tag hpc =>
      right
      refine ⟨_, get _ _ rfl, by simp, ?_⟩
      simp [ccost, hpc]
    | takeSome idx tag hpc hc =>
      right
      refine ⟨_, get _ _ rfl, by simp, ?_⟩
      simp [ccost, hpc]
    | takeNone idx hpc hc => left; right; simp
    | enqLoad q idx ret hpc =>
      right
      refine ⟨_, get _ _ rfl, by simp, ?_⟩
      have : ccost s th = 3 := by simp [ccost, hpc]
      rw [this]
      have : ccost (setTh s t { th with pc := .enqCas q idx ret (rdVal s q th c), view := th.view.setAt q (rdK s q th c) })
          { th with pc := .enqCas q idx ret (rdVal s q th c), view := th.view.setAt q (rdK s q th c) } ≤ 2 := by
        simp only [ccost]; split <;> omega
      omega
    | enqPanic q idx ret cur hpc he => left; right; simp
    | enqOk q idx ret cur new hpc he hcs => left; left; simp
    | enqFail q idx ret cur new hpc he hcs =>
      right
      have hr := hfresh (by rw [hpc]; rfl)
      refine ⟨_, get _ _ rfl, by simp, ?_⟩
      have hnew : ccost (setTh s t { th with pc := .enqCas q idx ret (rdVal s q th c), view := th.view.setAt q (rdK s q th c) })
          { th with pc := .enqCas q idx ret (rdVal s q th c), view := th.view.setAt q (rdK s q th c) } = 1 := by
        simp [ccost, rdVal_fresh s q th c hr]
      rw [hnew]
      have hge : 1 ≤ ccost s th := by simp only [ccost, hpc]; split <;> omega
      refine ⟨hge, fun hsp => ?_⟩
      rcases stale_of_fail hr hcs with h | h
      · rw [hsp] at h; cases h
      · simp [ccost, hpc, h]

/-- thread `t` running alone under the choices `cs` -/
def soloRun (o : Orders) (t : Nat) : Sys → List Choice → List Out
  | _, [] => []
  | s, c :: cs =>
    match step o s t c with
    | none => []
    | some (s', out) => out :: soloRun o t s' cs

/-- along the solo run, every compare-exchange that fails observes the current value (cache coherence) -/
def casFresh (o : Orders) (t : Nat) : Sys → List Choice → Prop
  | _, [] => True
  | s, c :: cs =>
    (∀ th, s.threads[t]? = some th → th.pc.isCas = true → c.read = none) ∧
    match step o s t c with
    | none => True
    | some (s', _) => casFresh o t s' cs

def spurious (cs : List Choice) : Nat := cs.countP (·.spurious)

/-- **C08.op_bounded** — from *every* state (reachable or not: wherever the other threads are paused), a busy
thread running alone completes its current `send`/`recv` within `ccost ≤ 7` own steps plus one per spurious
failure. -/
theorem C08_op_bounded (o : Orders) (t : Nat) (cs : List Choice) : ∀ (s : Sys) (th : Thread),
    s.threads[t]? = some th → (th.pc ≠ .idle ∨ th.script ≠ []) → casFresh o t s cs →
    ccost s th + spurious cs ≤ cs.length → ∃ out ∈ soloRun o t s cs, out.done := by
  induction cs with
  | nil =>
    intro s th hth hbusy _ hlen
    have : 1 ≤ ccost s th := by
      unfold ccost
      cases hpc : th.pc with
      | idle =>
        rcases hbusy with h | h
        · exact absurd hpc h
        · simp [h]
      | deqCas q tg cur => simp only; split <;> omega
      | enqCas q i r cur => simp only; split <;> omega
      | write i tg => simp
      | take i => simp
      | enqLoad q i r => simp
    simp at hlen; omega
  | cons c cs ih =>
    intro s th hth hbusy hf hlen
    obtain ⟨hf1, hf2⟩ := hf
    obtain ⟨s', out, hs, hcase⟩ := op_step o s t c th hth hbusy (hf1 th hth)
    simp only [hs] at hf2
    simp only [soloRun, hs]
    rcases hcase with hd | ⟨th', hth', hpc', hle, hlt⟩
    · exact ⟨out, List.mem_cons_self, hd⟩
    · have hlen' : ccost s' th' + spurious cs ≤ cs.length := by
        simp only [spurious, List.countP_cons, List.length_cons] at hlen ⊢
        cases hsp : c.spurious
        · have := hlt hsp; simp [hsp] at hlen; omega
        · simp [hsp] at hlen; omega
      obtain ⟨o', hm, hd⟩ := ih s' th' hth' (Or.inl hpc') hf2 hlen'
      exact ⟨o', List.mem_cons_of_mem _ hm, hd⟩

/-- the solo run stays within the reachable states -/
theorem soloRun_no_panic {scripts : List (List Cmd)} (t : Nat) (cs : List Choice) : ∀ (s : Sys),
    Reachable genOrders scripts s → ∀ out ∈ soloRun genOrders t s cs, out.panic = none := by
  induction cs with
  | nil => intro s _ out hm; cases hm
  | cons c cs ih =>
    intro s hr out hm
    simp only [soloRun] at hm
    cases hs : step genOrders s t c with
    | none => rw [hs] at hm; cases hm
    | some r =>
      obtain ⟨s', o1⟩ := r
      rw [hs] at hm
      rcases List.mem_cons.1 hm with h | h
      · rw [h]; exact C08_never_panics hr hs
      · exact ih s' (Reachable.step hr hs) out h

/-- **C08.op_returns** — in a reachable state the operation *returns* (it does not end in a panic): the
thread's `send` hands its value over or drops it, its `recv` yields a value or `None`, within the bound. -/
theorem C08_op_returns {scripts : List (List Cmd)} {s : Sys} (hr : Reachable genOrders scripts s) (t : Nat)
    (th : Thread) (cs : List Choice) (hth : s.threads[t]? = some th) (hbusy : th.pc ≠ .idle ∨ th.script ≠ [])
    (hf : casFresh genOrders t s cs) (hlen : 7 + spurious cs ≤ cs.length) :
    (∃ out ∈ soloRun genOrders t s cs, out.ret ≠ none) ∧ ∀ out ∈ soloRun genOrders t s cs, out.panic = none := by
  have hnp := soloRun_no_panic (scripts := scripts) t cs s hr
  obtain ⟨out, hm, hd⟩ := C08_op_bounded genOrders t cs s th hth hbusy hf (by have := ccost_le s th; omega)
  refine ⟨⟨out, hm, ?_⟩, hnp⟩
  rcases hd with h | h
  · exact h
  · exact absurd (hnp out hm) h

/-! ## any interleaving: a retry is paid for by somebody else's success (lock-freedom, quantitatively) -/

/-- the step was a successful compare-exchange: it appended a message to one of the two queue histories -/
def Out.appended (o : Out) : Bool :=
  match o.obs with
  | .cas _ _ _ true _ => true
  | _ => false

theorem ccost_any (s s' : Sys) (th : Thread) : ccost s' th ≤ ccost s th + 1 := by
  unfold ccost; split <;> (try split) <;> (try split) <;> omega

theorem ccost_congr {s s' : Sys} (th : Thread) (h : ∀ q, s'.hist q = s.hist q) : ccost s' th = ccost s th := by
  unfold ccost; split <;> simp [h]

theorem cell_hist (s : Sys) (idx : Nat) (cs : List (Option Nat)) (q : Loc) :
    ({ cellSys s idx with cells := cs } : Sys).hist q = s.hist q := by cases q <;> rfl

/-- a step of another thread leaves thread `t` as it is and raises its remaining cost by at most one, and
only if that step was a successful compare-exchange -/
theorem other_step {o : Orders} {s s' : Sys} {j t : Nat} {c : Choice} {out : Out} (hjt : t ≠ j)
    (hs : step o s j c = some (s', out)) (th : Thread) (hth : s.threads[t]? = some th) :
    s'.threads[t]? = some th ∧ ccost s' th ≤ ccost s th + (if out.appended then 1 else 0) := by
  cases hj : s.threads[j]? with
  | none => unfold step at hs; simp [hj] at hs
  | some thj =>
    have h := cstep_of hj hs
    have keep : ∀ (s0 : Sys) (th' : Thread), s0.threads = s.threads → (setTh s0 j th').threads[t]? = some th := by
      intro s0 th' e; rw [setTh_get_ne _ _ _ _ hjt, e]; exact hth
    have same : ∀ (s0 : Sys) (th' : Thread), (∀ q, s0.hist q = s.hist q) →
        ccost (setTh s0 j th') th ≤ ccost s th + (if out.appended then 1 else 0) := by
      intro s0 th' e
      have : ccost (setTh s0 j th') th = ccost s th := ccost_congr th (by intro q; rw [hist_setTh]; exact e q)
      omega
    cases h with
    | startNone q tag rest hpc hsc hz => exact ⟨keep _ _ rfl, same _ _ (fun _ => rfl)⟩
    | startGo q tag rest hpc hsc hz => exact ⟨keep _ _ rfl, same _ _ (fun _ => rfl)⟩
    | deqFailNone q tag cur hpc hcs hz => exact ⟨keep _ _ rfl, same _ _ (fun _ => rfl)⟩
    | deqFailRetry q tag cur hpc hcs hz => exact ⟨keep _ _ rfl, same _ _ (fun _ => rfl)⟩
    | enqLoad q idx ret hpc => exact ⟨keep _ _ rfl, same _ _ (fun _ => rfl)⟩
    | enqFail q idx ret cur new hpc he hcs => exact ⟨keep _ _ rfl, same _ _ (fun _ => rfl)⟩
    | enqPanic q idx ret cur hpc he => exact ⟨keep _ _ rfl, same _ _ (fun _ => rfl)⟩
    | write idx tag hpc => exact ⟨keep _ _ rfl, same _ _ (cell_hist s idx _)⟩
    | takeSome idx tag hpc hc => exact ⟨keep _ _ rfl, same _ _ (cell_hist s idx _)⟩
    | takeNone idx hpc hc => exact ⟨keep _ _ rfl, same _ _ (cell_hist s idx _)⟩
    | deqOk q tag cur hpc hcs =>
      refine ⟨keep _ _ (by cases q <;> rfl), ?_⟩
      have := ccost_any s (setTh (s.setHist q (s.hist q ++ [{ val := cur >>> Gen.BITS, view := casMsgView o.deqSucc s q thj }])) j
        { thj with pc := afterDeq tag (idxOf (cur &&& MASK)), view := casView o.deqSucc s q thj }) th
      simpa [Out.appended] using this
    | enqOk q idx ret cur new hpc he hcs =>
      refine ⟨keep _ _ (by cases q <;> rfl), ?_⟩
      have := ccost_any s (setTh (s.setHist q (s.hist q ++ [{ val := new, view := casMsgView o.enqSucc s q thj }])) j
        { thj with pc := .idle, view := casView o.enqSucc s q thj }) th
      simpa [Out.appended] using this

/-- run a schedule of (thread, environment choice); a step that is not enabled (the thread has finished) is skipped -/
def exec (o : Orders) : Sys → List (Nat × Choice) → List (Nat × Choice × Out)
  | _, [] => []
  | s, (j, c) :: rest =>
    match step o s j c with
    | none => exec o s rest
    | some (s', out) => (j, c, out) :: exec o s' rest

/-- along the schedule, every compare-exchange *of thread `t`* that fails observes the current value -/
def freshFor (o : Orders) (t : Nat) : Sys → List (Nat × Choice) → Prop
  | _, [] => True
  | s, (j, c) :: rest =>
    (j = t → ∀ th, s.threads[t]? = some th → th.pc.isCas = true → c.read = none) ∧
    match step o s j c with
    | none => freshFor o t s rest
    | some (s', _) => freshFor o t s' rest

def ownSteps (t : Nat) (tr : List (Nat × Choice × Out)) : Nat := tr.countP (fun e => e.1 == t)
def ownSpurious (t : Nat) (tr : List (Nat × Choice × Out)) : Nat := tr.countP (fun e => e.1 == t && e.2.1.spurious)
def othersAppends (t : Nat) (tr : List (Nat × Choice × Out)) : Nat := tr.countP (fun e => e.1 != t && e.2.2.appended)

/-- **C08.op_bounded_concurrent** — any number of threads, any interleaving, from any state: as long as thread
`t` has not completed the `send`/`recv` it is in, the number of own steps it has taken is below `ccost ≤ 7`, plus
its spurious failures, plus the number of compare-exchanges *other* threads have won meanwhile. A retry is never
a wait: each one is paid for by another operation's success (or by the hardware's spurious failure). -/
theorem C08_op_bounded_concurrent (o : Orders) (t : Nat) (sched : List (Nat × Choice)) : ∀ (s : Sys) (th : Thread),
    s.threads[t]? = some th → (th.pc ≠ .idle ∨ th.script ≠ []) → freshFor o t s sched →
    (∀ e ∈ exec o s sched, e.1 = t → ¬ e.2.2.done) →
    ownSteps t (exec o s sched) < ccost s th + ownSpurious t (exec o s sched) + othersAppends t (exec o s sched) := by
  induction sched with
  | nil =>
    intro s th hth hbusy _ _
    have : 1 ≤ ccost s th := by
      unfold ccost
      cases hpc : th.pc with
      | idle =>
        rcases hbusy with h | h
        · exact absurd hpc h
        · simp [h]
      | deqCas q tg cur => simp only; split <;> omega
      | enqCas q i r cur => simp only; split <;> omega
      | write i tg => simp
      | take i => simp
      | enqLoad q i r => simp
    simp [exec, ownSteps, ownSpurious, othersAppends]; omega
  | cons e rest ih =>
    obtain ⟨j, c⟩ := e
    intro s th hth hbusy hf hnd
    obtain ⟨hf1, hf2⟩ := hf
    by_cases hjt : j = t
    · subst hjt
      obtain ⟨s', out, hs, hcase⟩ := op_step o s j c th hth hbusy (hf1 rfl th hth)
      simp only [hs] at hf2
      simp only [exec, hs] at hnd ⊢
      rcases hcase with hd | ⟨th', hth', hpc', hle, hlt⟩
      · exact absurd hd (hnd _ List.mem_cons_self rfl)
      · have := ih s' th' hth' (Or.inl hpc') hf2 (fun e he => hnd e (List.mem_cons_of_mem _ he))
        simp only [ownSteps, ownSpurious, othersAppends, List.countP_cons] at this ⊢
        cases hsp : c.spurious
        · have h1 := hlt hsp
          simp [hsp]; omega
        · simp [hsp]; omega
    · cases hs : step o s j c with
      | none =>
        simp only [hs] at hf2
        simp only [exec, hs] at hnd ⊢
        exact ih s th hth hbusy hf2 hnd
      | some r =>
        obtain ⟨s', out⟩ := r
        simp only [hs] at hf2
        simp only [exec, hs] at hnd ⊢
        obtain ⟨hth', hc⟩ := other_step (Ne.symm hjt) hs th hth
        have := ih s' th hth' hbusy hf2 (fun e he => hnd e (List.mem_cons_of_mem _ he))
        simp only [ownSteps, ownSpurious, othersAppends, List.countP_cons] at this ⊢
        have hne : (j == t) = false := by simpa using hjt
        cases hap : out.appended
        · simp [hap] at hc
          simp [hne, hap, hjt]; omega
        · simp [hap] at hc
          simp [hne, hap, hjt]; omega

/-! ## non-vacuity: a sender interrupted between its load and its compare-exchange by another sender that
takes the slot; resumed alone, its first compare-exchange fails (stale), the second succeeds; with one
spurious failure thrown in, the send returns at its 6th further own step (7 in all) -/
example :
    let s := (runSched genOrders (Sys.init [[.send 7], [.send 9]]) [(0, {}), (1, {}), (1, {}), (1, {}), (1, {}), (1, {})]).1
    let outs := soloRun genOrders 0 s [{}, { spurious := true }, {}, {}, {}, {}, {}]
    (outs.map (fun o => o.ret.isSome)) = [false, false, false, false, false, true] ∧
      outs.all (fun o => o.panic.isNone) = true := by
  decide +kernel

/-- two senders interleaved: thread 0 loses its first compare-exchange to thread 1 (one append by the other),
retries and wins; three own steps so far, the call not yet complete -/
example :
    let tr := exec genOrders (Sys.init [[.send 7], [.send 9]]) [(0, {}), (1, {}), (1, {}), (0, {}), (0, {})]
    ownSteps 0 tr = 3 ∧ ownSpurious 0 tr = 0 ∧ othersAppends 0 tr = 1 ∧
      (tr.map (fun e => (e.1, e.2.2.appended))) = [(0, false), (1, false), (1, true), (0, false), (0, true)] ∧
      tr.all (fun e => e.2.2.ret.isNone && e.2.2.panic.isNone) = true := by
  decide +kernel

end SigHook.Channel
