import SigHook.Model.RegistryConc
import SigHook.Model.Skel
import SigHook.Lemmas.RegistryConcHand
/-!
# C04 — A pre-existing handler is chained: once per delivery, first, same arguments

> If a real handler was installed for a signal before the library first took that signal over,
> every later delivery of the signal invokes that handler exactly once, before any registered
> action, with the calling convention it was installed with (one-argument or three-argument with
> the kernel's info and context). This holds from the very instant the library's own handler
> becomes the process's disposition, including the window in which the first registration has not
> yet completed and while other signals are being registered concurrently; ignore/default
> dispositions are not called.
-/
namespace SigHook.RegConc
open SigHook.Registry (Disp lookup update prevCalled)

/-- **C04.conventions** — `Prev::execute`: a real handler is called with the convention it was
installed with (`h1` = one argument, `h3` = `SA_SIGINFO` three arguments); default / ignore are
not called. -/
theorem C04_conventions :
    prevCalled .dfl = none ∧ prevCalled .ign = none ∧
    (∀ f, prevCalled (.h1 f) = some (.h1 f)) ∧ (∀ f, prevCalled (.h3 f) = some (.h3 f)) :=
  ⟨rfl, rfl, fun _ => rfl, fun _ => rfl⟩

/-- **C04.slot_first** — if the pinned `data` snapshot has a slot for the signal, the handler
chained is the slot's `prev` (the fallback is not consulted) -/
theorem C04_slot_first (s : Sys) (t : Nat) (sig : Int) (sl p : Nat) (d : SigData) (slot : Registry.Slot)
    (hd : hlPc s.hd t = .rUse sl p 0) (hc : lookupN p s.cd = some d)
    (hs : lookup sig d.signals = some slot) :
    (dispatchPlan s t sig).1 = prevCalled slot.prev := by
  simp [dispatchPlan, hd, hc, hs]

/-- **C04.fallback_window** — with no slot yet (the first registration has switched the
disposition but not yet published), the handler chained is the one stored in the pinned
`race_fallback` snapshot, provided it was stored for this very signal; a fallback stored for
another signal is not used. -/
theorem C04_fallback_window (s : Sys) (t : Nat) (sig : Int) (sl p slf pf : Nat) (d : SigData)
    (fsig : Int) (prev : Disp)
    (hd : hlPc s.hd t = .rUse sl p 0) (hc : lookupN p s.cd = some d) (hs : lookup sig d.signals = none)
    (hf : hlPc s.hf t = .rUse slf pf 0) (hcf : lookupN pf s.cf = some (some (fsig, prev))) :
    dispatchPlan s t sig = (if fsig = sig then prevCalled prev else none, []) := by
  simp only [dispatchPlan, hd, hc, hs, hf, hcf, Option.getD]
  split <;> rfl

/-- the chained handler is called at most once per delivery and before every action: after the
`prev` step the plan has no handler left (`C02_prev_first`), and `run` steps only happen from a
plan without handler -/
theorem C04_once_and_first (env : Registry.Env) (ye : Nat) (s s' : Sys) (t : Nat) (th : Thread) (out : StepOut)
    (tag : Nat) (hth : s.threads[t]? = some th) (hs : step env ye s t = some (s', out))
    (hrun : out.ev = .run tag ∨ ∃ d, out.ev = .prev d) :
    (∃ d, out.ev = .prev d) → ∃ sig tags d, th.pc = .dPlan sig (some d) tags := by
  intro ⟨d, hd⟩
  unfold step at hs
  simp only [hth] at hs
  cases hpc : th.pc with
  | dPlan sig pv tags =>
    cases pv with
    | some d' => exact ⟨sig, tags, d', rfl⟩
    | none =>
      cases tags with
      | nil =>
        simp only [hpc] at hs
        cases hh : HalfLock.step ye s.hd t with
        | none => simp [hh] at hs
        | some r => simp [hh] at hs; obtain ⟨_, rfl⟩ := hs; simp at hd
      | cons tg rest => simp [hpc] at hs; obtain ⟨_, rfl⟩ := hs; simp at hd
  | idle =>
    simp only [hpc] at hs
    cases hsc : th.script with
    | nil => simp [hsc] at hs
    | cons op rest =>
      simp only [hsc] at hs
      cases op with
      | deliver sg =>
        simp only at hs
        split at hs <;> (simp at hs; obtain ⟨_, rfl⟩ := hs; simp at hd)
      | register c sg tg =>
        simp only at hs
        split at hs <;> (simp at hs; obtain ⟨_, rfl⟩ := hs; simp at hd)
      | unregister sg i => simp at hs; obtain ⟨_, rfl⟩ := hs; simp at hd
      | unregisterSignal sg => simp at hs; obtain ⟨_, rfl⟩ := hs; simp at hd
  | _ =>
    simp only [hpc] at hs
    repeat' split at hs
    all_goals (first | (simp at hs; done) | (simp at hs; obtain ⟨_, rfl⟩ := hs; simp at hd))


/-! ## The handover, for every reachable state of the concurrent model

`origDisp s sig` is the disposition recorded as "what the library replaced" for `sig`: the slot's
`prev` once the slot is published, before that what `race_fallback` currently holds. The theorems
say: it is recorded from the instant the library's handler is installed and equals the
disposition that was in place at that instant (`C04_records_what_it_replaced`); it exists whenever
the library's handler is the disposition (`C04_recorded_from_first_instant`); it never changes
afterwards, whatever other signals are being registered concurrently (`C04_record_never_changes`);
and a delivery - which only runs while the library's handler is installed - chains exactly
`prevCalled` of it (`C04_delivery_chains_the_record`), once and before any action
(`C04_once_and_first`). All this for any number of threads, any scripts, every interleaving,
starting from any disposition table that does not contain the library's handler. -/

open SigHook.Registry (Env)

/-- **C04.records_what_it_replaced** — the step that installs the library's handler for `sig`
(`Slot::new`'s `sigaction`) leaves `origDisp sig` = the disposition that was in place just before. -/
theorem C04_records_what_it_replaced {env : Env} {ye : Nat} {disp : List (Int × Disp)}
    {scripts : List (List Op)} {s s' : Sys} {t : Nat} {out : StepOut} {sig : Int}
    (hd : ∀ e ∈ disp, ∀ f, e.2 ≠ .lib f)
    (hr : Reachable env ye disp scripts s) (hs : step env ye s t = some (s', out))
    (hev : out.ev = .sigaction sig true true) : origDisp s' sig = some (dispOf s sig) := by
  have hI := inv6_reachable hr
  have h7b := inv7b_reachable hd hr
  cases hth : s.threads[t]? with
  | none => unfold step at hs; simp [hth] at hs
  | some th =>
    have h6 := step6_of hI hth hs
    cases h6 with
    | setOk sg tag new res hpc hrj =>
      simp only at hev; injection hev with hsg; subst hsg
      have hc := hI.coh t th hth; rw [hpc] at hc; simp only [CohT] at hc
      have hF := h7b.hand t th hth; rw [hpc] at hF; simp only [HandT] at hF
      exact origDisp_pending hc.1.1 hF
    | _ => simp at hev

/-- **C04.recorded_from_first_instant** — whenever the library's handler is the disposition of
`sig`, a record exists: the slot is published, or the first registration (holding `data`'s writer
mutex) is about to publish it and `race_fallback` holds the record meanwhile. -/
theorem C04_recorded_from_first_instant {env : Env} {ye : Nat} {disp : List (Int × Disp)}
    {scripts : List (List Op)} {s : Sys} {sig : Int} {f : Nat}
    (hd : ∀ e ∈ disp, ∀ f, e.2 ≠ .lib f)
    (hr : Reachable env ye disp scripts s) (hl : dispOf s sig = .lib f) : (origDisp s sig).isSome = true := by
  have h7b := inv7b_reachable hd hr
  cases hs : lookup sig (cur s).signals with
  | some slot => rw [origDisp_slot hs]; rfl
  | none =>
    rcases h7b.over sig f hl with h | ⟨j, thj, new, res, v, slot, _, _, _, _, h5⟩
    · rw [hs] at h; cases h
    · rw [origDisp_pending hs h5]; rfl

/-- **C04.record_never_changes** — no step of any thread changes the record of a signal that has
the library's handler installed: not the publication of the slot, not a later first registration
of another signal overwriting `race_fallback`, not any action registration or removal. -/
theorem C04_record_never_changes {env : Env} {ye : Nat} {disp : List (Int × Disp)}
    {scripts : List (List Op)} {s s' : Sys} {t : Nat} {out : StepOut} {sig : Int} {f : Nat}
    (hd : ∀ e ∈ disp, ∀ f, e.2 ≠ .lib f)
    (hr : Reachable env ye disp scripts s) (hs : step env ye s t = some (s', out))
    (hl : dispOf s sig = .lib f) : origDisp s' sig = origDisp s sig := by
  have hI := inv6_reachable hr
  cases hth : s.threads[t]? with
  | none => unfold step at hs; simp [hth] at hs
  | some th => exact origDisp_stable hI (inv7b_reachable hd hr) hth (step6_of hI hth hs) sig f hl

/-- **C04.delivery_chains_the_record** — a delivery about to call a chained handler calls exactly
the recorded one, with its convention (`prevCalled`); and a delivery only exists while the
library's handler is installed. -/
theorem C04_delivery_chains_the_record {env : Env} {ye : Nat} {disp : List (Int × Disp)}
    {scripts : List (List Op)} {s : Sys} {t : Nat} {th : Thread} {sig : Int} {d : Disp} {tags : List Nat}
    (hd : ∀ e ∈ disp, ∀ f, e.2 ≠ .lib f)
    (hr : Reachable env ye disp scripts s) (hth : s.threads[t]? = some th)
    (hpc : th.pc = .dPlan sig (some d) tags) :
    (origDisp s sig).bind prevCalled = some d ∧ ∃ f, dispOf s sig = .lib f := by
  have h7b := inv7b_reachable hd hr
  have hT := h7b.hand t th hth; rw [hpc] at hT; simp only [HandT] at hT
  refine ⟨?_, (inv7a_reachable hr).lib t th sig hth (by rw [hpc]; rfl)⟩
  rcases hT with h | h
  · cases h
  · exact h.symm

/-- and when the record is a default / ignore disposition (or the delivery's plan was computed
with nothing to chain) no handler is called: the plan has `none` -/
theorem C04_no_call_for_default_or_ignore {env : Env} {ye : Nat} {disp : List (Int × Disp)}
    {scripts : List (List Op)} {s s' : Sys} {t : Nat} {th : Thread} {out : StepOut} {sig : Int} {v : Nat}
    (hd : ∀ e ∈ disp, ∀ f, e.2 ≠ .lib f)
    (hr : Reachable env ye disp scripts s) (hth : s.threads[t]? = some th) (hpc : th.pc = .dData sig)
    (hs : step env ye s t = some (s', out)) (hev : out.ev = .hd (.load "data" v)) :
    ∃ tags, s'.threads[t]? = some { th with pc := .dPlan sig ((origDisp s sig).bind prevCalled) tags } := by
  have hI := inv6_reachable hr
  have h7b := inv7b_reachable hd hr
  have ht := (List.getElem?_eq_some_iff.1 hth).1
  have h6 := step6_of hI hth hs
  have hself := hand_self hI h7b hth h6
  cases h6 with
  | dataPin sg hd' pf hpc' hcF mv =>
    rw [hpc] at hpc'; injection hpc' with hsg; subst hsg
    have hT := h7b.hand t th hth; rw [hpc] at hT; simp only [HandT] at hT
    obtain ⟨pf', hpf, hdis⟩ := hT
    rw [hcF] at hpf; injection hpf with hpf; subst hpf
    refine ⟨(planOf (cur s) ((lookupN pf s.cf).getD none) sig).2, ?_⟩
    rw [setT_get _ _ _ (by simpa using ht), ← planOf_fst_orig]
    rcases hdis with h | h
    · rw [planOf_fst_slot _ _ (curF s) _ h]
    · rw [h]; rfl
  | dataStep sg hd' p o pf hpc' hcF mv hp ho =>
    exfalso
    simp only at hev
    rcases ho with ⟨w, rfl⟩ | ⟨l, w, rfl⟩
    · injection hev with hev; injection hev with h1 h2; simp at h1
    · injection hev with hev; cases hev
  | _ => simp_all


/-- **C04.first_registration_order** — tie to the source (regenerated): inside `data`'s writer
lock a first registration writes `race_fallback` (`store(Some(Prev::detect(..)))`) before
`Slot::new` installs the library's handler, and publishes the slot last; nothing else is stored
in between. This is the order of the L6 program counters `mLockF … mRunF → mSet → mRunD`. -/
theorem C04_first_registration_order :
    skelOf regFile "register_unchecked_impl" =
      ["data.write", "clone", "fallback.write", "store", "Prev::detect", "Slot::new", "store"] := by decide

/-- the dispatcher pins `race_fallback` before `data` and calls the chained handler before the
actions (or alone, from the fallback) -/
theorem C04_handler_order :
    (skelOf regFile "handler").filter (fun t => t != "null.write" && t != "null.abort") =
      ["fallback.read", "data.read", "prev.execute", "action", "prev.execute"] := by decide

/-- **C04.chained_call_shape** — tie to the source (regenerated): `Prev::execute` first excludes a null
pointer, `SIG_DFL` and `SIG_IGN` - in one guard, before it looks at any flag, so a special disposition is
never called whatever `sa_flags` it was installed with - and only then lets `SA_SIGINFO` choose between the
one-argument and the three-argument call, each made once. This is the model's `Disp` (`dfl`/`ign` are not
called, `h1 f` is called with the number, `h3 f` with number, info and context). -/
theorem C04_chained_call_shape :
    skelOf regFile "execute#1" = ["guard.special", "if", "if", "siginfo.clear", "call.1", "else", "call.3"] := by decide

end SigHook.RegConc
