import SigHook.Model.RegistryConc
/-!
# C04 — A pre-existing handler is chained: once per delivery, first, same arguments

> If a real handler was installed for a signal before the library first took that signal over,
> every later delivery of the signal invokes that handler exactly once, before any registered
> action, with the calling convention it was installed with (one-argument or three-argument with
> the kernel's info and context). This holds from the very instant the library's own handler
> becomes the process's disposition, including the window in which the first registration has not
> yet completed and while other signals are being registered concurrently; ignore/default
> dispositions are not called.
-/
namespace SigHook.RegConc
open SigHook.Registry (Disp lookup update prevCalled)

/-- **C04.conventions** — `Prev::execute`: a real handler is called with the convention it was
installed with (`h1` = one argument, `h3` = `SA_SIGINFO` three arguments); default / ignore are
not called. -/
theorem C04_conventions :
    prevCalled .dfl = none ∧ prevCalled .ign = none ∧
    (∀ f, prevCalled (.h1 f) = some (.h1 f)) ∧ (∀ f, prevCalled (.h3 f) = some (.h3 f)) :=
  ⟨rfl, rfl, fun _ => rfl, fun _ => rfl⟩

/-- **C04.slot_first** — if the pinned `data` snapshot has a slot for the signal, the handler
chained is the slot's `prev` (the fallback is not consulted) -/
theorem C04_slot_first (s : Sys) (t : Nat) (sig : Int) (sl p : Nat) (d : SigData) (slot : Registry.Slot)
    (hd : hlPc s.hd t = .rUse sl p 0) (hc : lookupN p s.cd = some d)
    (hs : lookup sig d.signals = some slot) :
    (dispatchPlan s t sig).1 = prevCalled slot.prev := by
  simp [dispatchPlan, hd, hc, hs]

/-- **C04.fallback_window** — with no slot yet (the first registration has switched the
disposition but not yet published), the handler chained is the one stored in the pinned
`race_fallback` snapshot, provided it was stored for this very signal; a fallback stored for
another signal is not used. -/
theorem C04_fallback_window (s : Sys) (t : Nat) (sig : Int) (sl p slf pf : Nat) (d : SigData)
    (fsig : Int) (prev : Disp)
    (hd : hlPc s.hd t = .rUse sl p 0) (hc : lookupN p s.cd = some d) (hs : lookup sig d.signals = none)
    (hf : hlPc s.hf t = .rUse slf pf 0) (hcf : lookupN pf s.cf = some (some (fsig, prev))) :
    dispatchPlan s t sig = (if fsig = sig then prevCalled prev else none, []) := by
  simp only [dispatchPlan, hd, hc, hs, hf, hcf, Option.getD]
  split <;> rfl

/-- the chained handler is called at most once per delivery and before every action: after the
`prev` step the plan has no handler left (`C02_prev_first`), and `run` steps only happen from a
plan without handler -/
theorem C04_once_and_first (env : Registry.Env) (ye : Nat) (s s' : Sys) (t : Nat) (th : Thread) (out : StepOut)
    (tag : Nat) (hth : s.threads[t]? = some th) (hs : step env ye s t = some (s', out))
    (hrun : out.ev = .run tag ∨ ∃ d, out.ev = .prev d) :
    (∃ d, out.ev = .prev d) → ∃ sig tags d, th.pc = .dPlan sig (some d) tags := by
  intro ⟨d, hd⟩
  unfold step at hs
  simp only [hth] at hs
  cases hpc : th.pc with
  | dPlan sig pv tags =>
    cases pv with
    | some d' => exact ⟨sig, tags, d', rfl⟩
    | none =>
      cases tags with
      | nil =>
        simp only [hpc] at hs
        cases hh : HalfLock.step ye s.hd t with
        | none => simp [hh] at hs
        | some r => simp [hh] at hs; obtain ⟨_, rfl⟩ := hs; simp at hd
      | cons tg rest => simp [hpc] at hs; obtain ⟨_, rfl⟩ := hs; simp at hd
  | idle =>
    simp only [hpc] at hs
    cases hsc : th.script with
    | nil => simp [hsc] at hs
    | cons op rest =>
      simp only [hsc] at hs
      cases op with
      | deliver sg =>
        simp only at hs
        split at hs <;> (simp at hs; obtain ⟨_, rfl⟩ := hs; simp at hd)
      | register c sg tg =>
        simp only at hs
        split at hs <;> (simp at hs; obtain ⟨_, rfl⟩ := hs; simp at hd)
      | unregister sg i => simp at hs; obtain ⟨_, rfl⟩ := hs; simp at hd
      | unregisterSignal sg => simp at hs; obtain ⟨_, rfl⟩ := hs; simp at hd
  | _ =>
    simp only [hpc] at hs
    repeat' split at hs
    all_goals (first | (simp at hs; done) | (simp at hs; obtain ⟨_, rfl⟩ := hs; simp at hd))

end SigHook.RegConc
