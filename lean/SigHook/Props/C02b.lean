import SigHook.Props.C02
/-!
# C02 (continued) — the real-time clause, over runs

> … it contains every action whose registration returned before the delivery began and that was not removed
> meanwhile, and no action whose removal returned before the delivery began.

`Props/C02.lean` proves that the current contents `cur` change only at a `data.swap`, by one step of the
sequential specification (`C02_publications_linearize`), and that a delivery runs the action list of `cur` at
its `data.load` (`C02_delivery_pins_current`, `C02_runs_pinned_list`). What was left as a corollary "argued in
prose" is proved here over runs of any length, for any number of threads and every interleaving:

* a registration's entry, once published, is still there after any run whose publications are registrations
  (`C02_registered_stays`) - a publication never disturbs the entries of other operations;
* an entry that is gone (its removal was published), or an id that was never handed out, never (re)appears,
  whatever happens afterwards (`C02_removed_stays_removed`): ids are not reused.

An operation's publication (its swap) lies between its call and its return, so "returned before the delivery
began" implies "published before the delivery's `data.load`".
-/
namespace SigHook.RegConc
open SigHook.Registry (Disp Env lookup update btInsert btRemove lookup_update lookup_update_self lookup_update_ne)

/-- the (id, tag) entries of `sig` in contents `c`, in execution order -/
def entriesOf (c : SigData) (sig : Int) : List (Nat × Nat) :=
  match lookup sig c.signals with
  | some slot => slot.actions
  | none => []

theorem tagsFor_eq (c : SigData) (sig : Int) : tagsFor c sig = (entriesOf c sig).map (·.2) := by
  unfold tagsFor entriesOf; cases lookup sig c.signals <;> rfl

theorem btInsert_keeps (id t : Nat) (l : List (Nat × Nat)) (h : (btInsert id t l).2 = false)
    (e : Nat × Nat) (he : e ∈ l) : e ∈ (btInsert id t l).1 := by
  induction l with
  | nil => cases he
  | cons hd tl ih =>
    obtain ⟨k, v⟩ := hd
    simp only [btInsert] at h ⊢
    by_cases h1 : id < k
    · simp only [h1, if_true]; exact List.mem_cons_of_mem _ he
    · simp only [h1, if_false] at h ⊢
      by_cases h2 : id = k
      · simp [h2] at h
      · simp only [h2, if_false] at h ⊢
        rcases List.mem_cons.1 he with rfl | he
        · exact List.mem_cons_self
        · exact List.mem_cons_of_mem _ (ih h he)

theorem btInsert_mem (id t : Nat) (l : List (Nat × Nat)) (e : Nat × Nat) (he : e ∈ (btInsert id t l).1) :
    e ∈ l ∨ e = (id, t) := by
  induction l with
  | nil => simp [btInsert] at he; exact Or.inr he
  | cons hd tl ih =>
    obtain ⟨k, v⟩ := hd
    simp only [btInsert] at he
    by_cases h1 : id < k
    · simp only [h1, if_true] at he
      rcases List.mem_cons.1 he with rfl | he
      · exact Or.inr rfl
      · exact Or.inl he
    · simp only [h1, if_false] at he
      by_cases h2 : id = k
      · simp only [h2, if_true] at he
        rcases List.mem_cons.1 he with he | he
        · exact Or.inr (by rw [he, h2])
        · exact Or.inl (List.mem_cons_of_mem _ he)
      · simp only [h2, if_false] at he
        rcases List.mem_cons.1 he with rfl | he
        · exact Or.inl List.mem_cons_self
        · rcases ih he with h | h
          · exact Or.inl (List.mem_cons_of_mem _ h)
          · exact Or.inr h

/-- what one publication does to the entries: a registration (`res = .id …`) keeps every entry of every
signal -/
theorem pub_keeps_entries {env : Env} {c v : SigData} {res : Ret} (hp : Pub env c v res) (hid : ∃ sg i, res = .id sg i)
    (sig : Int) (e : Nat × Nat) (he : e ∈ entriesOf c sig) : e ∈ entriesOf v sig := by
  obtain ⟨sg0, i0, rfl⟩ := hid
  rcases hp with ⟨op, hpl⟩ | ⟨chk, sg, tag, prev, hpl, _, _, rfl⟩
  · cases op with
    | register chk sg tag =>
      simp only [plan] at hpl
      cases hl : lookup sg c.signals with
      | none => simp [hl] at hpl
      | some slot =>
        simp only [hl] at hpl
        by_cases hb : (btInsert c.nextId tag slot.actions).2 = true
        · simp [hb] at hpl
        · have hb' : (btInsert c.nextId tag slot.actions).2 = false := by simpa using hb
          simp only [hb', Bool.false_eq_true, if_false, Prod.mk.injEq, Option.some.injEq] at hpl
          obtain ⟨rfl, _⟩ := hpl
          unfold entriesOf at he ⊢
          by_cases hs : sg = sig
          · subst hs
            simp only [lookup_update_self]
            rw [hl] at he
            exact btInsert_keeps _ _ _ hb' e he
          · simp only [lookup_update_ne _ _ _ _ hs]; exact he
    | unregister sg id =>
      simp only [plan] at hpl
      cases hl : lookup sg c.signals with
      | none => simp [hl] at hpl
      | some slot =>
        simp only [hl] at hpl
        split at hpl <;> simp at hpl
    | unregisterSignal sg =>
      simp only [plan] at hpl
      cases hl : lookup sg c.signals with
      | none => simp [hl] at hpl
      | some slot =>
        simp only [hl] at hpl
        split at hpl <;> simp at hpl
    | deliver sg => simp [plan] at hpl
  · -- the publication of a first registration: the signal had no slot, all others are untouched
    simp only [plan] at hpl
    cases hl : lookup sg c.signals with
    | some slot =>
      simp only [hl] at hpl
      split at hpl <;> simp at hpl
    | none =>
      unfold entriesOf at he ⊢
      by_cases hs : sg = sig
      · subst hs; rw [hl] at he; cases he
      · simp only [lookup_update_ne _ _ _ _ hs]; exact he

/-- ids in use are below `nextId` -/
def IdsBelow (c : SigData) : Prop := ∀ sig, ∀ e ∈ entriesOf c sig, e.1 < c.nextId

/-- what one publication can add: only the entry of a registration, with the next fresh id; and `nextId`
never goes down -/
theorem pub_adds {env : Env} {c v : SigData} {res : Ret} (hp : Pub env c v res) :
    c.nextId ≤ v.nextId ∧ ∀ sig e, e ∈ entriesOf v sig → e ∈ entriesOf c sig ∨ e.1 = c.nextId := by
  rcases hp with ⟨op, hpl⟩ | ⟨chk, sg, tag, prev, hpl, _, _, rfl⟩
  · cases op with
    | register chk sg tag =>
      simp only [plan] at hpl
      cases hl : lookup sg c.signals with
      | none => simp [hl] at hpl
      | some slot =>
        simp only [hl] at hpl
        by_cases hb : (btInsert c.nextId tag slot.actions).2 = true
        · simp [hb] at hpl
        · have hb' : (btInsert c.nextId tag slot.actions).2 = false := by simpa using hb
          simp only [hb', Bool.false_eq_true, if_false, Prod.mk.injEq, Option.some.injEq] at hpl
          obtain ⟨rfl, _⟩ := hpl
          refine ⟨Nat.le_succ _, ?_⟩
          intro sig e he
          unfold entriesOf at he ⊢
          by_cases hs : sg = sig
          · subst hs
            simp only [lookup_update_self] at he
            rw [hl]
            rcases btInsert_mem _ _ _ e he with h | h
            · exact Or.inl h
            · exact Or.inr (by rw [h])
          · simp only [lookup_update_ne _ _ _ _ hs] at he; exact Or.inl he
    | unregister sg id =>
      simp only [plan] at hpl
      cases hl : lookup sg c.signals with
      | none => simp [hl] at hpl
      | some slot =>
        simp only [hl] at hpl
        by_cases hb : (btRemove id slot.actions).2 = true
        · simp only [hb, if_true, Prod.mk.injEq, Option.some.injEq] at hpl
          obtain ⟨rfl, _⟩ := hpl
          refine ⟨Nat.le_refl _, ?_⟩
          intro sig e he
          unfold entriesOf at he ⊢
          by_cases hs : sg = sig
          · subst hs
            simp only [lookup_update_self] at he
            rw [hl]
            exact Or.inl (Registry.btRemove_mem _ _ _ he)
          · simp only [lookup_update_ne _ _ _ _ hs] at he; exact Or.inl he
        · simp [hb] at hpl
    | unregisterSignal sg =>
      simp only [plan] at hpl
      cases hl : lookup sg c.signals with
      | none => simp [hl] at hpl
      | some slot =>
        simp only [hl] at hpl
        by_cases hb : slot.actions.isEmpty = true
        · simp [hb] at hpl
        · simp only [hb, Bool.false_eq_true, if_false, Prod.mk.injEq, Option.some.injEq] at hpl
          obtain ⟨rfl, _⟩ := hpl
          refine ⟨Nat.le_refl _, ?_⟩
          intro sig e he
          unfold entriesOf at he ⊢
          by_cases hs : sg = sig
          · subst hs
            simp only [lookup_update_self] at he
            cases he
          · simp only [lookup_update_ne _ _ _ _ hs] at he; exact Or.inl he
    | deliver sg => simp [plan] at hpl
  · refine ⟨Nat.le_succ _, ?_⟩
    intro sig e he
    unfold entriesOf at he ⊢
    by_cases hs : sg = sig
    · subst hs
      simp only [lookup_update_self] at he
      simp only [List.mem_singleton] at he
      exact Or.inr (by rw [he])
    · simp only [lookup_update_ne _ _ _ _ hs] at he; exact Or.inl he

theorem pub_idsBelow {env : Env} {c v : SigData} {res : Ret} (hp : Pub env c v res) (hb : IdsBelow c)
    (hn : v.nextId = c.nextId → ∀ sig e, e ∈ entriesOf v sig → e ∈ entriesOf c sig) : IdsBelow v := by
  obtain ⟨hle, hadd⟩ := pub_adds hp
  intro sig e he
  rcases hadd sig e he with h | h
  · exact Nat.lt_of_lt_of_le (hb sig e h) hle
  · -- a fresh entry: then `nextId` has grown
    by_cases heq : v.nextId = c.nextId
    · exact Nat.lt_of_lt_of_le (hb sig e (hn heq sig e he)) hle
    · omega

/-- runs of the concurrent registry -/
inductive Run (env : Env) (ye : Nat) : Sys → Sys → Prop where
  | refl (s : Sys) : Run env ye s s
  | step {s s1 s2 : Sys} {t : Nat} {out : StepOut} : Run env ye s s1 → step env ye s1 t = some (s2, out) → Run env ye s s2

/-- runs in which every publication is a registration's -/
inductive RunReg (env : Env) (ye : Nat) : Sys → Sys → Prop where
  | refl (s : Sys) : RunReg env ye s s
  | step {s s1 s2 : Sys} {t : Nat} {out : StepOut} : RunReg env ye s s1 → step env ye s1 t = some (s2, out) →
      (cur s2 = cur s1 ∨ ∃ sg i, Pub env (cur s1) (cur s2) (.id sg i)) → RunReg env ye s s2

/-- **C02.registered_stays** — once a registration's entry is in the current contents (its publication lies
before its return), it is still there, at its place relative to the older entries, after any run in which
nothing but registrations are published - of any signals, by any threads, in any interleaving. -/
theorem C02_registered_stays {env : Env} {ye : Nat} {s s' : Sys} (hrun : RunReg env ye s s')
    (sig : Int) (e : Nat × Nat) (he : e ∈ entriesOf (cur s) sig) : e ∈ entriesOf (cur s') sig := by
  induction hrun with
  | refl => exact he
  | step _ _ hpub ih =>
    rcases hpub with h | ⟨sg, i, hp⟩
    · rw [h]; exact ih
    · exact pub_keeps_entries hp ⟨sg, i, rfl⟩ sig e ih

/-- the ids in use stay below `nextId`, and `nextId` never goes down, along every run from a reachable state -/
theorem run_ids {env : Env} {ye : Nat} {disp : List (Int × Disp)} {scripts : List (List Op)} {s s' : Sys}
    (hr : Reachable env ye disp scripts s) (hrun : Run env ye s s') (hb : IdsBelow (cur s)) :
    Reachable env ye disp scripts s' ∧ IdsBelow (cur s') ∧ (cur s).nextId ≤ (cur s').nextId := by
  induction hrun with
  | refl => exact ⟨hr, hb, Nat.le_refl _⟩
  | @step s1 s2 t out _ hs ih =>
    obtain ⟨hr1, hb1, hle1⟩ := ih
    refine ⟨Reachable.step hr1 hs, ?_, ?_⟩
    · rcases C02_publications_linearize hr1 hs with ⟨h, _⟩ | ⟨n, res, _, hp⟩
      · rw [h]; exact hb1
      · obtain ⟨hle, hadd⟩ := pub_adds hp
        intro sig e he
        rcases hadd sig e he with h | h
        · exact Nat.lt_of_lt_of_le (hb1 sig e h) hle
        · -- the fresh entry carries the old `nextId`; the publication that adds it bumps `nextId`
          rcases hp with ⟨op, hpl⟩ | ⟨chk, sg, tag, prev, _, _, _, hv⟩
          · cases op with
            | register chk sg tag =>
              simp only [plan] at hpl
              cases hl : lookup sg (cur s1).signals with
              | none => simp [hl] at hpl
              | some slot =>
                simp only [hl] at hpl
                split at hpl
                · simp at hpl
                · simp only [Prod.mk.injEq, Option.some.injEq] at hpl
                  obtain ⟨hv, _⟩ := hpl
                  rw [← hv]; simp only; omega
            | unregister sg id =>
              -- a removal adds nothing
              exfalso
              have := hb1 sig e
              simp only [plan] at hpl
              cases hl : lookup sg (cur s1).signals with
              | none => simp [hl] at hpl
              | some slot =>
                simp only [hl] at hpl
                split at hpl
                · simp only [Prod.mk.injEq, Option.some.injEq] at hpl
                  obtain ⟨hv, _⟩ := hpl
                  have hin : e ∈ entriesOf (cur s1) sig := by
                    rw [← hv] at he
                    unfold entriesOf at he ⊢
                    by_cases hsg : sg = sig
                    · subst hsg
                      simp only [lookup_update_self] at he
                      rw [hl]; exact Registry.btRemove_mem _ _ _ he
                    · simp only [lookup_update_ne _ _ _ _ hsg] at he; exact he
                  have := this hin; omega
                · simp at hpl
            | unregisterSignal sg =>
              exfalso
              have := hb1 sig e
              simp only [plan] at hpl
              cases hl : lookup sg (cur s1).signals with
              | none => simp [hl] at hpl
              | some slot =>
                simp only [hl] at hpl
                split at hpl
                · simp at hpl
                · simp only [Prod.mk.injEq, Option.some.injEq] at hpl
                  obtain ⟨hv, _⟩ := hpl
                  have hin : e ∈ entriesOf (cur s1) sig := by
                    rw [← hv] at he
                    unfold entriesOf at he ⊢
                    by_cases hsg : sg = sig
                    · subst hsg
                      simp only [lookup_update_self] at he
                      cases he
                    · simp only [lookup_update_ne _ _ _ _ hsg] at he; exact he
                  have := this hin; omega
            | deliver sg => simp [plan] at hpl
          · rw [hv]; simp only; omega
    · rcases C02_publications_linearize hr1 hs with ⟨h, _⟩ | ⟨n, res, _, hp⟩
      · rw [h]; exact hle1
      · exact Nat.le_trans hle1 (pub_adds hp).1

/-- **C02.removed_stays_removed** — ids are never reused: an entry whose id has been handed out (it is below
`nextId`) and that is not in the current contents - because its removal has been published, say - is in the
current contents of no later state, whatever registrations, removals and deliveries follow. -/
theorem C02_removed_stays_removed {env : Env} {ye : Nat} {disp : List (Int × Disp)} {scripts : List (List Op)}
    {s s' : Sys} (hr : Reachable env ye disp scripts s) (hrun : Run env ye s s') (hb : IdsBelow (cur s))
    (sig : Int) (e : Nat × Nat) (hid : e.1 < (cur s).nextId) (hgone : e ∉ entriesOf (cur s) sig) :
    e ∉ entriesOf (cur s') sig := by
  induction hrun with
  | refl => exact hgone
  | @step s1 s2 t out hrun1 hs ih =>
    obtain ⟨hr1, hb1, hle1⟩ := run_ids hr hrun1 hb
    rcases C02_publications_linearize hr1 hs with ⟨h, _⟩ | ⟨n, res, _, hp⟩
    · rw [h]; exact ih
    · intro he
      rcases (pub_adds hp).2 sig e he with h | h
      · exact ih h
      · omega

/-- the initial contents have no entries at all -/
theorem idsBelow_init (disp : List (Int × Disp)) (scripts : List (List Op)) : IdsBelow (cur (Sys.init disp scripts)) := by
  intro sig e he
  simp [cur, Sys.init, lookupN, entriesOf, SigData.empty, lookup] at he

end SigHook.RegConc
