import SigHook.Props.C14
import SigHook.Model.Skel
/-!
# C12 — A Signals instance survives rejected additions and cleans up what it owns

> An add_signal that is rejected - by returning an error or by its documented panic for a
> forbidden, negative or too-large number - leaves the instance exactly as before: signals already
> watched are still delivered, later add_signal calls behave normally (re-adding a watched signal
> is a no-op), and the process is never aborted. A constructor that fails leaves nothing
> registered, and once the instance and all its handles are gone every registration it made, and
> only those, has been removed and its pipe closed.

Model L10 (`Model/Entry.lean`), current shape of the source `⟨tolerant := true, idem := true⟩`
(generated flags, `C14_shape_current`). Statements quantify over every registry state, every
instance state (also a poisoned one), every number in `Int`, both exfiltrator kinds.
-/
namespace SigHook.Entry
open SigHook.Registry

def cur : Shape := ⟨true, true⟩

/-- what of an instance is observable: which signals it watches and with which ids (the lazily
created channels of `inited` and the poison flag are not, with the current shape) -/
def Inst.view (i : Inst) : Exf × List (Int × Nat) := (i.exf, i.ids)

/-- **C12.rejected_add_is_noop** — for every instance state (poisoned or not) and every number:
if `add_signal n` is rejected (error or panic), everything observable of the registry (`abs`: the
per-signal action lists, the chained handlers, the dispositions, the id counter — C05) is
unchanged and the instance watches exactly what it watched before, under the same ids. -/
theorem C12_rejected_add_is_noop (env : Env) (w : World) (i : Inst) (n : Int) (tag : Nat)
    (hi : w.inst = some i) (hrej : (addSignal env cur w n tag).2 ≠ .ok)
    (hnew : taken w.reg n = false ∨ (lookup n i.ids).isSome = true) :
    Registry.abs (addSignal env cur w n tag).1.reg = Registry.abs w.reg ∧
    ∃ i', (addSignal env cur w n tag).1.inst = some i' ∧ i'.view = i.view := by
  simp only [addSignal, hi, cur] at hrej ⊢
  simp only [Bool.not_true, Bool.and_false, Bool.false_eq_true, if_false] at hrej ⊢
  by_cases hr : n < 0 ∨ n ≥ maxSignum
  · simp [hr, Inst.view]
  · simp only [hr, if_false] at hrej ⊢
    by_cases hw : (lookup n i.ids).isSome = true
    · simp [hw] at hrej
    · simp only [hw, Bool.false_eq_true, if_false, and_false] at hrej ⊢
      have hnt : taken w.reg n = false := by
        rcases hnew with h | h
        · exact h
        · exact absurd h hw
      have hl : lookup n w.reg.signals = none := (taken_false_iff _ _).1 hnt
      by_cases hf : n ∈ env.forbidden
      · simp [Registry.register, hf, Inst.view]
      · simp only [Registry.register, hf, List.contains_eq_mem, decide_false, Bool.false_eq_true, if_false,
          registerUnchecked, hl] at hrej ⊢
        by_cases hq : env.rejectsQuery n = true
        · simp [hq, Inst.view]
        · by_cases hs : env.rejectsSet n = true
          · -- only the inert fallback slot differs
            simp only [hq, hs, Bool.false_eq_true, if_false, if_true] at hrej ⊢
            exact ⟨rfl, _, rfl, rfl⟩
          · simp [hq, hs] at hrej

/-- **C12.readd_noop** — adding a signal the instance already watches succeeds and changes
nothing at all, whatever happened before (also after rejected additions). -/
theorem C12_readd_noop (env : Env) (w : World) (i : Inst) (n : Int) (tag : Nat)
    (hi : w.inst = some i) (hr : 0 ≤ n ∧ n < maxSignum) (hw : (lookup n i.ids).isSome = true) :
    addSignal env cur w n tag = (w, .ok) := by
  have : ¬ (n < 0 ∨ n ≥ maxSignum) := by omega
  simp [addSignal, hi, cur, this, hw]

/-- **C12.never_aborts** — with the current shape neither `add_signal`, nor dropping, nor a
failing constructor ever ends in a process abort. -/
theorem C12_never_aborts (env : Env) (w : World) (exf : Exf) (sigs : List (Int × Nat)) :
    (newInst env cur w exf sigs).2 ≠ .abort := by
  have hdrop : ∀ w', (dropInst cur w').2 = .ok := by
    intro w'; simp only [dropInst, cur]; cases w'.inst <;> simp
  have key : ∀ (l : List (Int × Nat)) (w' : World), (newInst.go env cur w' l).2 ≠ .abort := by
    intro l
    induction l with
    | nil => intro w'; simp [newInst.go]
    | cons hd tl ih =>
      intro w'
      obtain ⟨n, tg⟩ := hd
      simp only [newInst.go]
      split
      · exact ih _
      · simp
      · rw [hdrop]; simp
  exact key _ _

/-- dropping never panics with the current shape, poisoned or not -/
theorem C12_drop_ok (w : World) : (dropInst cur w).2 = .ok := by
  simp only [dropInst, cur]; cases w.inst <;> simp

/-- helper: unregistering a list of ids removes exactly those ids from `actionsOf` -/
theorem unregisterAll_actions (s : State) (ids : List (Int × Nat)) (sig : Int) (env : Env) (hwf : WF env s) :
    actionsOf (unregisterAll s ids) sig =
      (actionsOf s sig).filter (fun e => !(ids.any (fun p => p.1 == sig && p.2 == e.1))) ∧
    WF env (unregisterAll s ids) := by
  induction ids generalizing s with
  | nil => exact ⟨by simp only [unregisterAll, List.any_nil, Bool.not_false]; exact (List.filter_eq_self.2 (fun _ _ => rfl)).symm, hwf⟩
  | cons hd tl ih =>
    obtain ⟨sg, id⟩ := hd
    have hwf' : WF env (Registry.unregister s sg id).1 := by
      have := wf_step env s (.unregister sg id) hwf trivial
      simpa [step] using this
    obtain ⟨h1, h2⟩ := ih (Registry.unregister s sg id).1 hwf'
    refine ⟨?_, h2⟩
    simp only [unregisterAll, h1]
    by_cases hs : sg = sig
    · subst hs
      rw [(C05_unregister_only_it env s sg id hwf).2, List.filter_filter]
      apply List.filter_congr
      intro e _
      by_cases he : e.1 = id
      · simp [he]
      · have h1 : (e.1 != id) = true := by simpa using he
        have h2 : (id == e.1) = false := by simpa using (fun h => he h.symm)
        simp [h1, h2]
    · have hfr := (C05_frame env s (.unregister sg id) sig (by simpa [opSig] using hs)).1
      simp only [step] at hfr
      rw [hfr]
      apply List.filter_congr
      intro e _
      have : (sg == sig) = false := by simpa using hs
      simp [this]

/-- **C12.drop_cleans_exactly_own** — after the instance and all its handles are dropped, for
every signal the registry holds exactly the actions it held minus the instance's own ids; nobody
else's registration is touched. -/
theorem C12_drop_cleans_exactly_own (env : Env) (w : World) (i : Inst) (sig : Int)
    (hi : w.inst = some i) (hwf : WF env w.reg) :
    (dropInst cur w).1.inst = none ∧
    actionsOf (dropInst cur w).1.reg sig =
      (actionsOf w.reg sig).filter (fun e => !(i.ids.any (fun p => p.1 == sig && p.2 == e.1))) := by
  simp only [dropInst, hi, cur]
  simp only [Bool.not_true, Bool.and_false, Bool.false_eq_true, if_false]
  exact ⟨trivial, (unregisterAll_actions w.reg i.ids sig env hwf).1⟩

/-! ## The defects of the code before the two `fix:` commits, as theorems about the old shapes -/

/-- `tolerant = false`: after a rejected `add_signal` (forbidden number) every later `add_signal`
panics and dropping the instance panics, leaking its registrations -/
theorem C12_wedged_before_fix :
    let w0 := (newInst Registry.envLinux ⟨false, true⟩ World.init .only [(10, 1)]).1
    let w1 := (addSignal Registry.envLinux ⟨false, true⟩ w0 9 2).1
    (addSignal Registry.envLinux ⟨false, true⟩ w1 12 3).2 = .panic ∧
    (dropInst ⟨false, true⟩ w1).2 = .panic ∧
    actionsOf (dropInst ⟨false, true⟩ w1).1.reg 10 ≠ [] := by decide

/-- `idem = false`: retrying a number the OS rejected panics instead of returning the error -/
theorem C12_raw_retry_panicked_before_fix :
    let w0 := (newInst Registry.envLinux ⟨true, false⟩ World.init .raw [(10, 1)]).1
    let w1 := (addSignal Registry.envLinux ⟨true, false⟩ w0 100 2)
    w1.2 = .err ∧ (addSignal Registry.envLinux ⟨true, false⟩ w1.1 100 3).2 = .panic ∧
    (addSignal Registry.envLinux cur (addSignal Registry.envLinux cur w0 100 2).1 100 3).2 = .err := by decide

/-! ## non-vacuity -/
example : let w0 := (newInst Registry.envLinux cur World.init .only [(10, 1), (12, 2)]).1
    (addSignal Registry.envLinux cur w0 9 3).2 = .panic ∧
    (addSignal Registry.envLinux cur (addSignal Registry.envLinux cur w0 9 3).1 14 4).2 = .ok ∧
    actionsOf (dropInst cur w0).1.reg 10 = [] := by decide

/-! ## Round sixteen: the instance survives every history of additions -/

/-- one `add_signal` on a live instance: the instance is still there, watches at least what it watched (same ids, same
exfiltrator), and the call did not abort -/
theorem addSignal_survives (env : Env) (w : World) (i : Inst) (n : Int) (tag : Nat) (hi : w.inst = some i) :
    ∃ i', (addSignal env cur w n tag).1.inst = some i' ∧ i.ids <:+ i'.ids ∧ i'.exf = i.exf ∧
      (addSignal env cur w n tag).2 ≠ .abort := by
  simp only [addSignal, hi, cur]
  simp only [Bool.not_true, Bool.and_false, Bool.false_eq_true, if_false, and_false]
  split
  · exact ⟨_, rfl, List.suffix_refl _, rfl, by simp⟩
  · split
    · exact ⟨_, hi, List.suffix_refl _, rfl, by simp⟩
    · split
      · exact ⟨_, rfl, List.suffix_cons _ _, rfl, by simp⟩
      · exact ⟨_, rfl, List.suffix_refl _, rfl, by simp⟩
      · exact ⟨_, rfl, List.suffix_refl _, rfl, by simp⟩

/-- a history of `add_signal` calls -/
def runAdds (env : Env) : World → List (Int × Nat) → World × List Res
  | w, [] => (w, [])
  | w, (n, tag) :: rest =>
    let r := addSignal env cur w n tag
    let t := runAdds env r.1 rest
    (t.1, r.2 :: t.2)

/-- **C12.history_survives** — for every live instance and every history of additions (valid, forbidden, out of range,
rejected by the OS, repeated, in any order and number): the instance is still there at the end, still watches everything
it watched under the same ids, and no call aborted the process. -/
theorem C12_history_survives (env : Env) (adds : List (Int × Nat)) (w : World) (i : Inst) (hi : w.inst = some i) :
    ∃ i', (runAdds env w adds).1.inst = some i' ∧ i.ids <:+ i'.ids ∧ i'.exf = i.exf ∧
      ∀ r ∈ (runAdds env w adds).2, r ≠ .abort := by
  induction adds generalizing w i with
  | nil => exact ⟨i, hi, List.suffix_refl _, rfl, by simp [runAdds]⟩
  | cons a adds ih =>
    obtain ⟨n, tag⟩ := a
    obtain ⟨i1, h1, hs1, he1, hr1⟩ := addSignal_survives env w i n tag hi
    obtain ⟨i2, h2, hs2, he2, hr2⟩ := ih (addSignal env cur w n tag).1 i1 h1
    refine ⟨i2, by simpa [runAdds] using h2, hs1.trans hs2, he2.trans he1, ?_⟩
    intro r hr
    simp only [runAdds, List.mem_cons] at hr
    rcases hr with rfl | hr
    · exact hr1
    · exact hr2 r hr

/-- **C12.add_signal_skeleton** — tie to the source (regenerated): `Handle::add_signal` takes the ids lock
(tolerating poison), returns at once for a signal it already watches, registers, and records the id - all
under the one lock, which is not dropped in between. -/
theorem C12_add_signal_skeleton :
    skelOf "src/iterator/backend.rs" "add_signal@registered_signal_ids" =
      ["lock", "tolerant", "check.registered", "return.ok", "register", "record"] := by decide


/-- **C12.drop_skeleton** — tie to the source (regenerated): dropping the state shared by an instance and its
handles takes the ids lock (tolerating poison) and unregisters *every* recorded id - no condition, no early
return (not "unless the thread is panicking", not "unless the lock is poisoned"): the model's `dropInst`. -/
theorem C12_drop_skeleton :
    skelOf "src/iterator/backend.rs" "drop@registered_signal_ids" = ["lock", "tolerant", "all.ids", "unregister"] := by decide

end SigHook.Entry
