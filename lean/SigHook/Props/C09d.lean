import SigHook.Props.C09c
/-!
# C09 (continued) — `wait()` and `pending()` obtain a delivered signal

> … a consumer that keeps calling wait/forever/poll and drains what it is handed obtains that signal at least
> once after the delivery.

`Props/C09c.lean` is the progress half for `forever()`. This file is the same for the batch front ends: a
consumer that is about to call, or is inside, `wait()` / `pending()` and drains the batch it is handed. In any
state in which the signal's slot is set and the consumer cannot block before it gets to the slot - a byte is in
the pipe if it still has the blocking read in front of it, or its scan has not passed the slot - the consumer
running *alone* hands the signal out within `acost` own steps. The hypothesis is what `WakeInv` provides for every
delivered-and-woken signal of an open instance (`C09_batch_obtains_reachable`).
-/
namespace SigHook.Iter

/-- the next call of the script is a batch call that will not block -/
def callOk (s : Sys) (script : List Cmd) : Prop :=
  match script with
  | .wait :: _ => s.closed = true ∨ 0 < s.pipe
  | .pending :: _ => True
  | _ => False

/-- the consumer is about to run / is inside a batch call and will reach the slot of `sig` without blocking: in
this call, or - its scan having passed the slot - in the next one -/
def adue (s : Sys) (th : Thread) (sig : Nat) : Prop :=
  match th.pc with
  | .idle => callOk s th.script
  | .ppCallback .wait => 0 < s.pipe
  | .flush .wait | .flush .pending => True
  | .scan _ pos => pos ≤ sig ∨ callOk s th.script
  | _ => False

structure DueA (s : Sys) (th : Thread) (sig : Nat) : Prop where
  set : sig ∈ s.set
  lt : sig < maxSig
  ann : adue s th sig

/-- own steps until `sig` is handed out, generously -/
def acost (s : Sys) (th : Thread) (sig : Nat) : Nat :=
  let near := 2 * s.set.length + sig + 2
  match th.pc with
  | .idle => flushCostF s.pipe + near + 3
  | .ppCallback _ => flushCostF s.pipe + near + 2
  | .flush _ => flushCostF s.pipe + near
  | .scan _ pos => if pos ≤ sig then 2 * s.set.length + (sig - pos) + 1
                   else 2 * s.set.length + (maxSig - pos) + 1 + (flushCostF s.pipe + near + 3)
  | _ => 0

/-- one step of the batch consumer while `sig` is due: it is enabled; either it hands out `sig`, or `sig` is
still due and `acost` has dropped -/
theorem adue_step (rc : Bool) (s : Sys) (t : Nat) (th : Thread) (sig : Nat) (hth : s.threads[t]? = some th)
    (hd : DueA s th sig) :
    ∃ s' o th', step rc s t = some (s', o) ∧ s'.threads[t]? = some th' ∧
      (o.yielded = some sig ∨ (DueA s' th' sig ∧ acost s' th' sig + 1 ≤ acost s th sig)) := by
  have hlt : t < s.threads.length := (List.getElem?_eq_some_iff.1 hth).1
  have get : ∀ (s0 : Sys) (th' : Thread), s0.threads = s.threads → (setT s0 t th').threads[t]? = some th' := by
    intro s0 th' e; simp [setT, e, hlt]
  obtain ⟨hset, hsl, hann⟩ := hd
  have hfm := flushCostF_mono s.pipe
  unfold step
  simp only [hth]
  cases hpc : th.pc with
  | dWake sg => simp [adue, hpc] at hann
  | cWake => simp [adue, hpc] at hann
  | psClosed m => simp [adue, hpc] at hann
  | psNext m => simp [adue, hpc] at hann
  | ppClosed m => simp [adue, hpc] at hann
  | psRecheck m => simp [adue, hpc] at hann
  | idle =>
    cases hsc : th.script with
    | nil => simp [adue, hpc, hsc, callOk] at hann
    | cons cmd rest =>
      cases cmd with
      | deliver sg => simp [adue, hpc, hsc, callOk] at hann
      | close => simp [adue, hpc, hsc, callOk] at hann
      | poll => simp [adue, hpc, hsc, callOk] at hann
      | forever => simp [adue, hpc, hsc, callOk] at hann
      | wait =>
        simp only [adue, hpc, hsc, callOk] at hann
        cases hcl : s.closed with
        | true =>
          simp only [if_true]
          refine ⟨_, _, _, rfl, get _ _ rfl, Or.inr ⟨⟨hset, hsl, by simp [adue]⟩, ?_⟩⟩
          simp only [acost, hpc, setT]; omega
        | false =>
          have hp : 0 < s.pipe := by
            rcases hann with h | h
            · rw [hcl] at h; cases h
            · exact h
          simp only [Bool.false_eq_true, if_false]
          refine ⟨_, _, _, rfl, get _ _ rfl, Or.inr ⟨⟨hset, hsl, (by simp only [adue, setT]; exact hp)⟩, ?_⟩⟩
          simp only [acost, hpc, setT]; omega
      | pending =>
        simp only [step.stepFlush]
        by_cases hp : s.pipe > 0
        · simp only [hp, if_true]
          refine ⟨_, _, _, rfl, get _ _ rfl, Or.inr ⟨⟨hset, hsl, by simp [adue]⟩, ?_⟩⟩
          have := flushCostF_step s.pipe hp
          simp only [acost, hpc, setT]; omega
        · simp only [hp, if_false]
          have hp0 : s.pipe = 0 := by omega
          refine ⟨_, _, _, rfl, get _ _ rfl, Or.inr ⟨⟨hset, hsl, by simp [adue]⟩, ?_⟩⟩
          simp only [acost, hpc, setT, hp0, flushCostF, Nat.zero_le, if_true]; omega
  | ppCallback m =>
    cases m with
    | pending => simp [adue, hpc] at hann
    | poll => simp [adue, hpc] at hann
    | forever => simp [adue, hpc] at hann
    | wait =>
      have hp : 0 < s.pipe := by simpa [adue, hpc] using hann
      have hp0 : ¬ s.pipe = 0 := by omega
      simp only [blocking, if_true, hp0, if_false]
      refine ⟨_, _, _, rfl, get _ _ rfl, Or.inr ⟨⟨hset, hsl, by simp [adue]⟩, ?_⟩⟩
      simp only [acost, hpc, setT]; omega
  | flush m =>
    have hm : m = .wait ∨ m = .pending := by
      cases m <;> simp [adue, hpc] at hann <;> simp
    simp only [step.stepFlush]
    by_cases hp : s.pipe > 0
    · simp only [hp, if_true]
      refine ⟨_, _, _, rfl, get _ _ rfl, Or.inr ⟨⟨hset, hsl, by rcases hm with rfl | rfl <;> simp [adue]⟩, ?_⟩⟩
      have := flushCostF_step s.pipe hp
      simp only [acost, hpc, setT]; omega
    · simp only [hp, if_false]
      have hp0 : s.pipe = 0 := by omega
      rcases hm with rfl | rfl
      · refine ⟨_, _, _, rfl, get _ _ rfl, Or.inr ⟨⟨hset, hsl, by simp [adue]⟩, ?_⟩⟩
        simp only [acost, hpc, setT, hp0, flushCostF, Nat.zero_le, if_true]; omega
      · refine ⟨_, _, _, rfl, get _ _ rfl, Or.inr ⟨⟨hset, hsl, by simp [adue]⟩, ?_⟩⟩
        simp only [acost, hpc, setT, hp0, flushCostF, Nat.zero_le, if_true]; omega
  | scan m pos =>
    have hann' : pos ≤ sig ∨ callOk s th.script := by simpa [adue, hpc] using hann
    by_cases hcov : pos ≤ sig
    · have hl : pos < maxSig := by omega
      simp only [hl, if_true]
      by_cases hin : s.set.contains pos = true
      · simp only [hin, if_true]
        have hmem : pos ∈ s.set := by simpa using hin
        by_cases heq : pos = sig
        · exact ⟨_, _, _, rfl, get _ _ rfl, Or.inl (by simp [heq])⟩
        · have hset' : sig ∈ s.set.erase pos := (List.mem_erase_of_ne (Ne.symm heq)).2 hset
          have hlen := length_erase_mem s.set pos hmem
          refine ⟨_, _, _, rfl, get _ _ rfl, Or.inr ⟨⟨hset', hsl, by simp [adue, hcov]⟩, ?_⟩⟩
          simp only [acost, hpc, setT, hcov, if_true]; omega
      · simp only [hin]
        have hne : pos ≠ sig := by
          intro e; rw [e] at hin; exact hin (by simpa using hset)
        have hcov' : pos + 1 ≤ sig := by omega
        have hnl : ¬ (pos + 1 == maxSig) = true := by simp; omega
        refine ⟨_, _, _, rfl, get _ _ rfl, Or.inr ⟨⟨hset, hsl, by simp [adue, hnl, hcov']⟩, ?_⟩⟩
        simp only [acost, hpc, setT, hnl, hcov, if_true]
        simp [hcov']; omega
    · -- the scan has passed the slot: finish this batch, the next call gets it
      have hcall : callOk s th.script := by
        rcases hann' with h | h
        · exact absurd h hcov
        · exact h
      by_cases hl : pos < maxSig
      · simp only [hl, if_true]
        by_cases hin : s.set.contains pos = true
        · simp only [hin, if_true]
          have hmem : pos ∈ s.set := by simpa using hin
          have heq : pos ≠ sig := by omega
          have hset' : sig ∈ s.set.erase pos := (List.mem_erase_of_ne (Ne.symm heq)).2 hset
          have hlen := length_erase_mem s.set pos hmem
          refine ⟨_, _, _, rfl, get _ _ rfl, Or.inr ⟨⟨hset', hsl, ?_⟩, ?_⟩⟩
          · simp only [adue, setT]
            exact Or.inr (by unfold callOk at hcall ⊢; exact hcall)
          · simp only [acost, hpc, setT, hcov, if_false]; omega
        · simp only [hin]
          by_cases hlast : (pos + 1 == maxSig) = true
          · simp only [hlast, if_true]
            refine ⟨_, _, _, rfl, get _ _ rfl, Or.inr ⟨⟨hset, hsl, ?_⟩, ?_⟩⟩
            · simp only [adue, setT]; unfold callOk at hcall ⊢; exact hcall
            · simp only [acost, hpc, setT, hcov, if_false]; omega
          · simp only [hlast]
            have hcov' : ¬ pos + 1 ≤ sig := by omega
            refine ⟨_, _, _, rfl, get _ _ rfl, Or.inr ⟨⟨hset, hsl, ?_⟩, ?_⟩⟩
            · simp only [adue, setT]
              exact Or.inr (by unfold callOk at hcall ⊢; exact hcall)
            · simp only [acost, hpc, setT, hcov, if_false]
              simp [hcov']; omega
      · simp only [hl, if_false]
        refine ⟨_, _, _, rfl, get _ _ rfl, Or.inr ⟨⟨hset, hsl, ?_⟩, ?_⟩⟩
        · simp only [adue, setT]; unfold callOk at hcall ⊢; exact hcall
        · simp only [acost, hpc, setT, hcov, if_false]; omega

/-- **C09.batch_obtains** — a consumer about to call or inside `wait()` / `pending()` for which `sig` is due
hands `sig` out within `acost` own steps, running alone and draining its batch. -/
theorem C09_batch_obtains (rc : Bool) :
    ∀ (k : Nat) (s : Sys) (t : Nat) (th : Thread) (sig : Nat), s.threads[t]? = some th → DueA s th sig →
      acost s th sig ≤ k → ∃ n, n ≤ k + 1 ∧ sig ∈ soloYields rc s t n := by
  intro k
  induction k with
  | zero =>
    intro s t th sig hth hd hk
    obtain ⟨s', o, th', hs, _, hres⟩ := adue_step rc s t th sig hth hd
    rcases hres with hy | ⟨_, hlt⟩
    · exact ⟨1, by omega, by simp [soloYields, hs, hy]⟩
    · omega
  | succ k ih =>
    intro s t th sig hth hd hk
    obtain ⟨s', o, th', hs, hth', hres⟩ := adue_step rc s t th sig hth hd
    rcases hres with hy | ⟨hd', hlt⟩
    · exact ⟨1, by omega, by simp [soloYields, hs, hy]⟩
    · obtain ⟨n, hn, hmem⟩ := ih s' t th' sig hth' hd' (by omega)
      exact ⟨n + 1, by omega, by simp only [soloYields, hs]; exact List.mem_append_right _ hmem⟩

/-- the bound in closed form -/
theorem acost_le (s : Sys) (th : Thread) (sig : Nat) (hs : sig < maxSig) :
    acost s th sig ≤ 4 * s.set.length + 2 * maxSig + s.pipe / 1024 + 9 := by
  have hf : flushCostF s.pipe ≤ s.pipe / 1024 + 2 := by unfold flushCostF; omega
  unfold acost
  cases th.pc <;> simp only <;> (try split) <;> omega

/-- the hypothesis is what the inductive invariant of `Props/C09.lean` provides in every reachable state: a
delivered signal whose wake-up has completed, an open instance, a consumer of the batch family that is about to
call `wait()`/`pending()` or is inside one -/
theorem C09_batch_obtains_reachable {r : Bool} {c : Nat} {w : List Nat} {cap pipe : Nat}
    {scripts : List (List Cmd)} {s : Sys} (hg : GoodScripts c .A scripts) (hcap : 0 < cap)
    (hr : Reachable r w cap pipe scripts s) (th : Thread) (hth : s.threads[c]? = some th)
    (hmore : th.script ≠ []) (hopen : s.closed = false) (sig : Nat) (hin : (sig, true) ∈ s.unreported) :
    ∃ n, n ≤ acost s th sig + 1 ∧ sig ∈ soloYields r s c n := by
  have hinv := wake_reachable hg hcap hr
  obtain ⟨hset, hlt⟩ := hinv.inSet _ hin
  obtain ⟨hsc, hpcs⟩ := hinv.consumer th hth
  have hann : 0 < s.pipe ∨ covers th sig = true := by
    rcases hinv.announced sig hin with h | h | ⟨th', hth', hc⟩
    · rw [hopen] at h; cases h
    · exact Or.inl h
    · rw [hth] at hth'; injection hth' with e; subst e; exact Or.inr hc
  -- the next call of a batch-family script with a byte in the pipe does not block
  have hcall : 0 < s.pipe → callOk s th.script := by
    intro hp
    cases hscr : th.script with
    | nil => exact absurd hscr hmore
    | cons cmd rest =>
      have hst := hsc cmd (by rw [hscr]; exact List.mem_cons_self)
      cases cmd <;> simp [Cmd.inStyle] at hst <;> simp [callOk, hp]
  have hnotB : th.styleB = false := by
    cases hscr : th.script with
    | nil => exact absurd hscr hmore
    | cons cmd rest =>
      have hst := hsc cmd (by rw [hscr]; exact List.mem_cons_self)
      cases cmd <;> simp [Cmd.inStyle] at hst <;> simp [Thread.styleB, hscr]
  have hd : adue s th sig := by
    cases hpc : th.pc with
    | idle =>
      simp only [adue, hpc]
      rcases hann with h | h
      · exact hcall h
      · simp [covers, hpc, hnotB] at h
    | dWake sg => rw [hpc] at hpcs; simp [Pc.inStyle] at hpcs
    | cWake => rw [hpc] at hpcs; simp [Pc.inStyle] at hpcs
    | psClosed m => rw [hpc] at hpcs; simp [Pc.inStyle] at hpcs
    | psNext m => rw [hpc] at hpcs; simp [Pc.inStyle] at hpcs
    | ppClosed m => rw [hpc] at hpcs; simp [Pc.inStyle] at hpcs
    | psRecheck m => rw [hpc] at hpcs; simp [Pc.inStyle] at hpcs
    | flush m =>
      rw [hpc] at hpcs
      cases m <;> simp [Pc.inStyle, Mode.inStyle] at hpcs <;> simp [adue, hpc]
    | ppCallback m =>
      rw [hpc] at hpcs
      cases m <;> simp [Pc.inStyle, Mode.inStyle] at hpcs
      simp only [adue, hpc]
      rcases hann with h | h
      · exact h
      · simp [covers, hpc] at h
    | scan m pos =>
      simp only [adue, hpc]
      rcases hann with h | h
      · exact Or.inr (hcall h)
      · exact Or.inl (by simpa [covers, hpc] using h)
  exact C09_batch_obtains r (acost s th sig) s c th sig hth ⟨hset, hlt, hd⟩ (Nat.le_refl _)

/-! ## non-vacuity: the delivery lands while the consumer sits in the blocking read of `wait()` -/
example :
    let run := fun (s : Sys) (sched : List Nat) => sched.foldl (fun s t => match step true s t with | some (s', _) => s' | none => s) s
    let s := run (Sys.init [10] 278 0 [[.deliver 10], [.wait, .wait]]) [1, 1, 0, 0]
    (s.threads[1]?.map (fun th => (th.pc, th.script, acost s th 10))) = some (.ppCallback .wait, [.wait], 18) ∧ s.pipe = 1 ∧
      s.set = [10] ∧ (10, true) ∈ s.unreported ∧ 10 ∈ soloYields true s 1 20 := by
  decide +kernel

end SigHook.Iter
