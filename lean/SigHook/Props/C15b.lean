import SigHook.Props.C15
/-!
# C15 (continued) — the double-signal pattern among other actions, and under their removal

> … so 'shutdown registered first, arming flag second' survives the first termination signal and dies on the
> second, for every arm/disarm history.

`C15_double_signal_pattern` is about the two actions alone. A program has more: other flags, counters. This file
proves the pattern for any action list of the shape `pre ++ [shutdown st f] ++ mid ++ [arm f] ++ post` whose other
actions are setters of *other* flags - and that shape is closed under removing any of those other actions, so
unregistering something else never changes what the pair does (`C15_pattern_survives_removal`): what an
implementation must not do is disturb the relative order of the two when a third action goes away.
-/
namespace SigHook.Builtin

/-- a setter of a flag other than `f` -/
def otherSetter (f : Nat) : Action → Bool
  | .setTrue g => g != f
  | .setUsize g _ => g != f
  | .condShutdown _ _ => false

theorem getF_setF_other (fl : Flags) (f g v : Nat) (h : g ≠ f) : getF (setF fl g v) f = getF fl f := by
  simp [getF, setF, h]

/-- setters of other flags in front of a list only change other flags -/
theorem deliver_skip (f : Nat) (pre : List Action) (h : ∀ a ∈ pre, otherSetter f a = true) (fl : Flags) :
    ∃ fl1, (∀ rest, deliver (pre ++ rest) fl = deliver rest fl1) ∧ getF fl1 f = getF fl f := by
  induction pre generalizing fl with
  | nil => exact ⟨fl, fun _ => rfl, rfl⟩
  | cons a pre ih =>
    have ha := h a List.mem_cons_self
    have hp : ∀ b ∈ pre, otherSetter f b = true := fun b hb => h b (List.mem_cons_of_mem _ hb)
    cases a with
    | setTrue g =>
      have hg : g ≠ f := by simpa [otherSetter] using ha
      obtain ⟨fl1, h1, h2⟩ := ih hp (setF fl g 1)
      exact ⟨fl1, fun rest => by simp [deliver, h1], by rw [h2, getF_setF_other _ _ _ _ hg]⟩
    | setUsize g v =>
      have hg : g ≠ f := by simpa [otherSetter] using ha
      obtain ⟨fl1, h1, h2⟩ := ih hp (setF fl g v)
      exact ⟨fl1, fun rest => by simp [deliver, h1], by rw [h2, getF_setF_other _ _ _ _ hg]⟩
    | condShutdown st g => simp [otherSetter] at ha

/-- the shape: shutdown on `f` first, the arming `setTrue f` later, setters of other flags anywhere -/
def Pattern (st : Int) (f : Nat) (acts : List Action) : Prop :=
  ∃ pre mid post, acts = pre ++ [.condShutdown st f] ++ mid ++ [.setTrue f] ++ post ∧
    (∀ a ∈ pre, otherSetter f a = true) ∧ (∀ a ∈ mid, otherSetter f a = true) ∧ (∀ a ∈ post, otherSetter f a = true)

/-- **C15.pattern_general** — with any such list: a delivery that finds the flag clear returns with the flag
set; a delivery that finds it set ends the process with the requested status, without exit-time hooks. -/
theorem C15_pattern_general (st : Int) (f : Nat) (acts : List Action) (hp : Pattern st f acts) (fl : Flags) :
    (getF fl f = 0 → ∃ fl', deliver acts fl = .returned fl' ∧ getF fl' f = 1) ∧
    (getF fl f ≠ 0 → ∃ fl', deliver acts fl = .exited (exitCode st) false fl') := by
  obtain ⟨pre, mid, post, rfl, hpre, hmid, hpost⟩ := hp
  obtain ⟨fl1, h1, g1⟩ := deliver_skip f pre hpre fl
  have e1 : deliver (pre ++ [.condShutdown st f] ++ mid ++ [.setTrue f] ++ post) fl =
      deliver ([.condShutdown st f] ++ mid ++ [.setTrue f] ++ post) fl1 := by
    have := h1 ([.condShutdown st f] ++ mid ++ [.setTrue f] ++ post)
    simpa [List.append_assoc] using this
  constructor
  · intro h0
    have h10 : getF fl1 f = 0 := by rw [g1]; exact h0
    obtain ⟨fl2, h2, g2⟩ := deliver_skip f mid hmid fl1
    obtain ⟨fl3, h3, g3⟩ := deliver_skip f post hpost (setF fl2 f 1)
    refine ⟨fl3, ?_, ?_⟩
    · rw [e1]
      have : deliver ([.condShutdown st f] ++ mid ++ [.setTrue f] ++ post) fl1 = deliver (mid ++ ([.setTrue f] ++ post)) fl1 := by
        simp [deliver, h10, List.append_assoc]
      rw [this, h2]
      have : deliver ([Action.setTrue f] ++ post) fl2 = deliver (post ++ []) (setF fl2 f 1) := by simp [deliver]
      rw [this, h3]; rfl
    · rw [g3]; simp [getF, setF]
  · intro hne
    have h1ne : getF fl1 f ≠ 0 := by rw [g1]; exact hne
    refine ⟨fl1, ?_⟩
    rw [e1]
    simp [deliver, h1ne]

theorem otherSetter_eraseIdx (f : Nat) (l : List Action) (i : Nat) (h : ∀ a ∈ l, otherSetter f a = true) :
    ∀ a ∈ l.eraseIdx i, otherSetter f a = true :=
  fun a ha => h a (List.mem_of_mem_eraseIdx ha)

/-- **C15.pattern_survives_removal** — taking away any one of the *other* actions (whichever part of the list it is
in) leaves a list of the same shape: the pair still survives the first signal and dies on the second. -/
theorem C15_pattern_survives_removal (st : Int) (f : Nat) (pre mid post : List Action)
    (hpre : ∀ a ∈ pre, otherSetter f a = true) (hmid : ∀ a ∈ mid, otherSetter f a = true)
    (hpost : ∀ a ∈ post, otherSetter f a = true) (i : Nat) :
    Pattern st f (pre.eraseIdx i ++ [.condShutdown st f] ++ mid ++ [.setTrue f] ++ post) ∧
    Pattern st f (pre ++ [.condShutdown st f] ++ mid.eraseIdx i ++ [.setTrue f] ++ post) ∧
    Pattern st f (pre ++ [.condShutdown st f] ++ mid ++ [.setTrue f] ++ post.eraseIdx i) :=
  ⟨⟨_, _, _, rfl, otherSetter_eraseIdx f pre i hpre, hmid, hpost⟩,
   ⟨_, _, _, rfl, hpre, otherSetter_eraseIdx f mid i hmid, hpost⟩,
   ⟨_, _, _, rfl, hpre, hmid, otherSetter_eraseIdx f post i hpost⟩⟩

/-- what the removal must not do: move the last action into the hole (`swap_remove`). With one other action in
front, removing it that way puts the arming flag before the shutdown - and the first signal kills. -/
theorem C15_swap_remove_breaks_the_pattern (st : Int) (f g : Nat) (hg : g ≠ f) (fl : Flags) (h0 : getF fl f = 0) :
    -- registered: [other, shutdown, arm]; `swap_remove(0)` leaves [arm, shutdown]
    (∃ fl', deliver ([.setTrue g, .condShutdown st f, .setTrue f].eraseIdx 0) fl = .returned fl') ∧
    deliver [.setTrue f, .condShutdown st f] fl = .exited (exitCode st) false (setF fl f 1) := by
  constructor
  · exact ⟨setF fl f 1, by simp [deliver, h0]⟩
  · simp [deliver]

/-! ## non-vacuity -/
example : Pattern 7 0 [.setUsize 3 5, .condShutdown 7 0, .setTrue 1, .setTrue 0, .setUsize 3 9] :=
  ⟨[.setUsize 3 5], [.setTrue 1], [.setUsize 3 9], rfl, by decide, by decide, by decide⟩

end SigHook.Builtin
