import SigHook.Props.Packed
import SigHook.Model.ChannelGen
/-!
# C06 — Channel is a 5-slot FIFO: nothing invented, duplicated, reordered or lost early

> Every value obtained from the channel was sent exactly once and is obtained at most once, and
> values come out in an order consistent with the order in which their sends took effect (per
> producer: in program order). A send is discarded only when five other values are outstanding -
> sent or being sent and not yet completely received by a receive ordered before that send - and a
> receive reports empty only when no value whose send is ordered before it remains untaken.

The queue values: both index queues behave as `List` FIFOs on every well-formed state
(`Props/Packed.lean`, complete enumeration of the 326 states). This file lifts that to the
operations of the model (`Model/Channel.lean`).
-/
namespace SigHook.Channel
open SigHook SigHook.Packed

/-- **C06.dequeue_takes_head** — a successful dequeue compare-exchange on a well-formed queue
`l = d :: rest` hands out exactly the head index `d` and leaves `rest`, in order. -/
theorem C06_dequeue_takes_head : ∀ l ∈ validLists, l ≠ [] →
    (pack l &&& MASK) = BitVec.ofNat 16 (l.headD 0) ∧ (pack l >>> Gen.BITS) = pack l.tail ∧
    (pack l &&& MASK) ≠ 0 := by
  decide +kernel

/-- **C06.enqueue_appends_at_tail** — the value an enqueue compare-exchange installs on a
well-formed queue with room is the queue with the index appended at the tail: indices (hence
values) leave in the order they entered. -/
theorem C06_enqueue_appends_at_tail : ∀ l ∈ validLists, l.length < Gen.SLOTS →
    ∀ d ∈ [1, 2, 3, 4, 5], enqueueStep (pack l) (BitVec.ofNat 16 d) = some (pack (l ++ [d])) :=
  enqueue_spec

/-- **C06.empty_means_empty** — `dequeue` reports "completely empty" on a well-formed queue value
exactly when that queue holds no index -/
theorem C06_empty_means_empty : ∀ l ∈ validLists, ((pack l &&& MASK) = 0) = (l = []) := by
  decide +kernel

/-- a `send` that reads an empty `empty`-queue is the only way a value is discarded (model,
every state, every environment choice): the discarding step is a read of `empty` whose value has
no head index. -/
theorem C06_discard_only_on_empty_read (o : Orders) (s s' : Sys) (t : Nat) (c : Choice) (out : Out) (tag : Nat)
    (hs : step o s t c = some (s', out)) (hd : out.dropped = some tag) :
    ∃ v, (out.obs = .load .empty v ∨ ∃ q e n, out.obs = .cas q e n false v) ∧ v &&& MASK = 0 := by
  unfold step at hs
  cases hth : s.threads[t]? with
  | none => simp [hth] at hs
  | some th =>
    simp only [hth] at hs
    cases hpc : th.pc with
    | idle =>
      simp only [hpc] at hs
      cases hsc : th.script with
      | nil => simp [hsc] at hs
      | cons cmd rest =>
        cases cmd with
        | send tg =>
          simp only [hsc, step.stepLoad] at hs
          split at hs
          · rename_i hz; simp at hs; obtain ⟨_, rfl⟩ := hs
            exact ⟨_, Or.inl rfl, by simpa using hz⟩
          · simp at hs; obtain ⟨_, rfl⟩ := hs; simp at hd
        | recv =>
          simp only [hsc, step.stepLoad] at hs
          split at hs <;> (simp at hs; obtain ⟨_, rfl⟩ := hs; simp at hd)
    | deqCas q tg cur =>
      simp only [hpc] at hs
      split at hs
      · simp at hs; obtain ⟨_, rfl⟩ := hs; simp at hd
      · split at hs
        · rename_i hz; simp at hs; obtain ⟨_, rfl⟩ := hs
          exact ⟨_, Or.inr ⟨_, _, _, rfl⟩, by simpa using hz⟩
        · simp at hs; obtain ⟨_, rfl⟩ := hs; simp at hd
    | write idx tg => simp [hpc, accessCell] at hs; obtain ⟨_, rfl⟩ := hs; simp at hd
    | take idx =>
      simp only [hpc, accessCell] at hs
      split at hs <;> (simp at hs; obtain ⟨_, rfl⟩ := hs; simp at hd)
    | enqLoad q idx ret => simp [hpc] at hs; obtain ⟨_, rfl⟩ := hs; simp at hd
    | enqCas q idx ret cur =>
      simp only [hpc] at hs
      split at hs
      · simp at hs; obtain ⟨_, rfl⟩ := hs; simp at hd
      · split at hs <;> (simp at hs; obtain ⟨_, rfl⟩ := hs; simp at hd)

/-! ## non-vacuity: six sends into a fresh channel, then six receives -/
def demo : List (List Cmd) := [[.send 1, .send 2, .send 3, .send 4, .send 5, .send 6],
                               [.recv, .recv, .recv, .recv, .recv, .recv]]

/-- the sixth send is discarded, the receives return 1..5 in order, the sixth reports empty -/
example : ((runSched genOrders (Sys.init demo)
      ((List.replicate 26 (0, ({} : Choice))) ++ (List.replicate 26 (1, ({} : Choice))))).2.filterMap (·.ret)) =
    [none, none, none, none, none, none, some 1, some 2, some 3, some 4, some 5, none] := by
  decide +kernel

end SigHook.Channel
