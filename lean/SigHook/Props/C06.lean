import SigHook.Props.Packed
import SigHook.Model.Skel
import SigHook.Model.ChannelGen
import SigHook.Props.C07
/-!
# C06 — Channel is a 5-slot FIFO: nothing invented, duplicated, reordered or lost early

> Every value obtained from the channel was sent exactly once and is obtained at most once, and
> values come out in an order consistent with the order in which their sends took effect (per
> producer: in program order). A send is discarded only when five other values are outstanding -
> sent or being sent and not yet completely received by a receive ordered before that send - and a
> receive reports empty only when no value whose send is ordered before it remains untaken.

The queue values: both index queues behave as `List` FIFOs on every well-formed state
(`Props/Packed.lean`, complete enumeration of the 326 states). This file lifts that to the
operations of the model (`Model/Channel.lean`).
-/
namespace SigHook.Channel
open SigHook SigHook.Packed

/-- **C06.dequeue_takes_head** — a successful dequeue compare-exchange on a well-formed queue
`l = d :: rest` hands out exactly the head index `d` and leaves `rest`, in order. -/
theorem C06_dequeue_takes_head : ∀ l ∈ validLists, l ≠ [] →
    (pack l &&& MASK) = BitVec.ofNat 16 (l.headD 0) ∧ (pack l >>> Gen.BITS) = pack l.tail ∧
    (pack l &&& MASK) ≠ 0 := by
  decide +kernel

/-- **C06.enqueue_appends_at_tail** — the value an enqueue compare-exchange installs on a
well-formed queue with room is the queue with the index appended at the tail: indices (hence
values) leave in the order they entered. -/
theorem C06_enqueue_appends_at_tail : ∀ l ∈ validLists, l.length < Gen.SLOTS →
    ∀ d ∈ [1, 2, 3, 4, 5], enqueueStep (pack l) (BitVec.ofNat 16 d) = some (pack (l ++ [d])) :=
  enqueue_spec

/-- **C06.empty_means_empty** — `dequeue` reports "completely empty" on a well-formed queue value
exactly when that queue holds no index -/
theorem C06_empty_means_empty : ∀ l ∈ validLists, ((pack l &&& MASK) = 0) = (l = []) := by
  decide +kernel

/-- a `send` that reads an empty `empty`-queue is the only way a value is discarded (model,
every state, every environment choice): the discarding step is a read of `empty` whose value has
no head index. -/
theorem C06_discard_only_on_empty_read (o : Orders) (s s' : Sys) (t : Nat) (c : Choice) (out : Out) (tag : Nat)
    (hs : step o s t c = some (s', out)) (hd : out.dropped = some tag) :
    ∃ v, (out.obs = .load .empty v ∨ ∃ q e n, out.obs = .cas q e n false v) ∧ v &&& MASK = 0 := by
  unfold step at hs
  cases hth : s.threads[t]? with
  | none => simp [hth] at hs
  | some th =>
    simp only [hth] at hs
    cases hpc : th.pc with
    | idle =>
      simp only [hpc] at hs
      cases hsc : th.script with
      | nil => simp [hsc] at hs
      | cons cmd rest =>
        cases cmd with
        | send tg =>
          simp only [hsc, step.stepLoad] at hs
          split at hs
          · rename_i hz; simp at hs; obtain ⟨_, rfl⟩ := hs
            exact ⟨_, Or.inl rfl, by simpa using hz⟩
          · simp at hs; obtain ⟨_, rfl⟩ := hs; simp at hd
        | recv =>
          simp only [hsc, step.stepLoad] at hs
          split at hs <;> (simp at hs; obtain ⟨_, rfl⟩ := hs; simp at hd)
    | deqCas q tg cur =>
      simp only [hpc] at hs
      split at hs
      · simp at hs; obtain ⟨_, rfl⟩ := hs; simp at hd
      · split at hs
        · rename_i hz; simp at hs; obtain ⟨_, rfl⟩ := hs
          exact ⟨_, Or.inr ⟨_, _, _, rfl⟩, by simpa using hz⟩
        · simp at hs; obtain ⟨_, rfl⟩ := hs; simp at hd
    | write idx tg => simp [hpc, accessCell] at hs; obtain ⟨_, rfl⟩ := hs; simp at hd
    | take idx =>
      simp only [hpc, accessCell] at hs
      split at hs <;> (simp at hs; obtain ⟨_, rfl⟩ := hs; simp at hd)
    | enqLoad q idx ret => simp [hpc] at hs; obtain ⟨_, rfl⟩ := hs; simp at hd
    | enqCas q idx ret cur =>
      simp only [hpc] at hs
      split at hs
      · simp at hs; obtain ⟨_, rfl⟩ := hs; simp at hd
      · split at hs <;> (simp at hs; obtain ⟨_, rfl⟩ := hs; simp at hd)

/-! ## non-vacuity: six sends into a fresh channel, then six receives -/
def demo : List (List Cmd) := [[.send 1, .send 2, .send 3, .send 4, .send 5, .send 6],
                               [.recv, .recv, .recv, .recv, .recv, .recv]]

/-- the sixth send is discarded, the receives return 1..5 in order, the sixth reports empty -/
example : ((runSched genOrders (Sys.init demo)
      ((List.replicate 26 (0, ({} : Choice))) ++ (List.replicate 26 (1, ({} : Choice))))).2.filterMap (·.ret)) =
    [none, none, none, none, none, none, some 1, some 2, some 3, some 4, some 5, none] := by
  decide +kernel


/-! ## The queues in every reachable state -/

/-- **C06.queues_wellformed** — in every reachable state both queue values, and every value in
their histories (anything a relaxed load can still return), are well-formed queues of distinct
slot indices; payload cells of the indices in the `full` queue are occupied. -/
theorem C06_queues_wellformed {scripts : List (List Cmd)} {s : Sys} (hr : Reachable genOrders scripts s) :
    (∀ q, ∀ m ∈ s.hist q, LQ m ∈ validLists ∧ m.val = pack (LQ m)) ∧
    (∀ idx, (LQ (lastMsg s.full)).contains idx = true → (s.cells.getD (idx - 1) none).isSome = true) :=
  let hI := inv_reachable C07_orderings_side_condition.1 C07_orderings_side_condition.2 hr
  ⟨hI.valid, hI.fullCells⟩

/-- **C06.fifo_transitions** — every successful compare-exchange on a queue in a reachable state
either removes the head of the (well-formed) latest value or appends one index, absent so far, at
its tail: indices - hence payloads - leave each queue in the order they entered, none is
duplicated and none disappears. -/
theorem C06_fifo_transitions {scripts : List (List Cmd)} {s s' : Sys} {t : Nat} {c : Choice} {out : Out}
    {q : Loc} {cur new seen : Q}
    (hr : Reachable genOrders scripts s) (hs : step genOrders s t c = some (s', out))
    (hobs : out.obs = .cas q cur new true seen) :
    ∃ l ∈ validLists, (lastMsg (s.hist q)).val = pack l ∧ cur = pack l ∧
      ((l ≠ [] ∧ new = pack l.tail) ∨ (∃ idx ∈ idxs, ¬ l.contains idx ∧ new = pack (l ++ [idx]))) := by
  have hI := inv_reachable C07_orderings_side_condition.1 C07_orderings_side_condition.2 hr
  cases hth : s.threads[t]? with
  | none => unfold step at hs; simp [hth] at hs
  | some th =>
    have h := cstep_of hth hs
    have hP := hI.pcs t th hth
    cases h with
    | deqOk q' tag cur' hpc hcs =>
      simp only at hobs; injection hobs with e1 e2 e3 e4 e5; subst e1; subst e2; subst e3
      simp only [PcOk, hpc] at hP
      have hval := canSucceed_val hcs
      have hv := hI.valid q' _ (lastMsg_mem (hI.ne q'))
      refine ⟨LQ (lastMsg (s.hist q')), hv.1, hv.2, by rw [← hval]; exact hv.2, Or.inl ?_⟩
      have hne : LQ (lastMsg (s.hist q')) ≠ [] := by
        intro e
        have := tbl_zero _ hv.1
        rw [← hv.2, hval, e] at this
        simp at this; exact hP.1 this
      refine ⟨hne, ?_⟩
      have := (tbl_head _ hv.1 hne).2.1
      rw [← hv.2, hval] at this; exact this
    | enqOk q' idx ret cur' new' hpc he hcs =>
      simp only at hobs; injection hobs with e1 e2 e3 e4 e5; subst e1; subst e2; subst e3
      simp only [PcOk, hpc] at hP
      obtain ⟨hO, _, l, hl, hcur, hni⟩ := hP
      have hval := canSucceed_val hcs
      refine ⟨l, hl, by rw [hval]; exact hcur, hcur, Or.inr ⟨idx, hO.1, hni, ?_⟩⟩
      have := (tbl_enq l hl idx hO.1 hni).1
      rw [hcur, this] at he; injection he with he; exact he.symm
    | _ => simp at hobs


/-- **C06.send_recv_skeleton** — tie to the source (regenerated): `send` = dequeue from `empty`,
write the cell, enqueue to `full`; `recv` = dequeue from `full`, take the cell, enqueue to `empty` -
the order of the model's program counters. -/
theorem C06_send_recv_skeleton :
    skelOf chanFile "send" = ["dequeue.empty", "cell.write", "enqueue.full"] ∧
    skelOf chanFile "recv" = ["dequeue.full", "cell.take", "enqueue.empty"] := by decide

end SigHook.Channel
