import SigHook.Model.Pipe
import SigHook.Model.Skel
/-!
# C13 — Self-pipe wake: one non-blocking byte per delivery; fd owned and closed once

> Each delivery of a signal with a registered self-pipe makes exactly one attempt to write one byte
> and returns promptly whether the write end is empty or completely full, for pipes, stream sockets
> and datagram sockets alike; the reader never sees more bytes than deliveries and sees at least one
> if any delivery happened since it last drained. The descriptor handed over is closed exactly once
> - when the action is removed or the registration is rejected - and is never written to after that.

Model L9. All statements quantify over every descriptor kind, every initial `O_NONBLOCK` state,
every capacity and fill level, every burst length.
-/
namespace SigHook.Pipe

/-- **C13.never_blocks** — whatever descriptor is handed to `register_raw` (kind, blocking or
not, empty, partly filled or completely full), no wake-up issued afterwards can block. -/
theorem C13_never_blocks (fd : Fd) (n : Nat) :
    ∀ r ∈ (burst (classify fd).1 (classify fd).2 n).2, r ≠ .blocks := by
  have key : ∀ (m : Method) (f : Fd), (m = .write → f.nonblock = true) → ∀ n,
      ∀ r ∈ (burst m f n).2, r ≠ .blocks := by
    intro m f hm n
    induction n generalizing f with
    | zero => simp [burst]
    | succ n ih =>
      intro r hr
      simp only [burst, List.mem_cons] at hr
      rcases hr with hr | hr
      · subst hr
        simp only [wake]
        split
        · simp
        · cases m with
          | send => simp
          | write => simp [hm rfl]
      · refine ih (wake m f).1 ?_ r hr
        intro hw
        simp only [wake]
        split <;> (try cases m) <;> simp_all
  apply key
  intro hm
  simp only [classify] at hm ⊢
  split at hm <;> simp_all

/-- one attempt per delivery: a burst of `n` deliveries makes exactly `n` attempts -/
theorem C13_one_attempt_each (m : Method) (fd : Fd) (n : Nat) : (burst m fd n).2.length = n := by
  induction n generalizing fd with
  | zero => rfl
  | succ n ih => simp [burst, ih]

theorem burst_fill (m : Method) (fd : Fd) (n : Nat) :
    (burst m fd n).1.fill = min (fd.fill + n) (max (fd.cap - fd.empties) fd.fill) ∧ (burst m fd n).1.cap = fd.cap ∧
    (burst m fd n).1.empties = fd.empties := by
  induction n generalizing fd with
  | zero => simp [burst]; omega
  | succ n ih =>
    simp only [burst]
    obtain ⟨h1, h2, h3⟩ := ih (wake m fd).1
    rw [h1, h2, h3]
    simp only [wake]
    split
    · simp; omega
    · cases m <;> simp <;> omega

/-- **C13.byte_bounds** — after the reader drained and `n` deliveries happened, the bytes it can
read are at most `n`, and at least one if `n > 0` (capacity > 0): a wake-up is never lost
entirely, and never multiplied. -/
theorem C13_byte_bounds (m : Method) (fd : Fd) (n : Nat) (hcap : 0 < fd.cap) :
    let fd0 := (drain fd).1
    (burst m fd0 n).1.fill ≤ n ∧ (0 < n → 0 < (burst m fd0 n).1.fill) := by
  simp only [drain]
  have := (burst_fill m { fd with fill := 0, empties := 0 } n).1
  simp only at this
  rw [this]
  constructor
  · omega
  · intro hn; omega

/-- a failed attempt means the queue is full, so something is already there for the reader (the
descriptor is readable): bytes, or - on a datagram socket before its first drain - the zero-length
datagram of the library's own probe -/
theorem C13_failed_attempt_means_full (m : Method) (fd : Fd) (hcap : 0 < fd.cap)
    (h : (wake m fd).2 ≠ .wrote) : 0 < fd.fill + fd.empties := by
  simp only [wake] at h
  split at h
  · simp at h
  · omega

/-- the classification never touches anything but `O_NONBLOCK`, and sockets are used with
`MSG_DONTWAIT` (their own flags are left alone) -/
theorem C13_classify_frame (fd : Fd) :
    (classify fd).2.fill = fd.fill ∧ (classify fd).2.cap = fd.cap ∧ (classify fd).2.kind = fd.kind ∧
    (classify fd).2.closes = fd.closes ∧
    (fd.kind = .stream → (classify fd) = (.send, fd)) ∧
    (fd.kind = .dgram → (classify fd).1 = .send ∧ (classify fd).2.nonblock = fd.nonblock) ∧
    (fd.kind = .pipe → (classify fd).1 = .write) := by
  obtain ⟨k, nb, fl, cp, cl, em⟩ := fd
  cases k
  · simp [classify, probe]
  · simp [classify, probe]
  · simp only [classify, probe]
    by_cases h : fl + em < cp <;> simp [h]
  · simp [classify, probe]

/-- **C13.rejected_registration_closes_once** — when `set_flags` fails (a descriptor that is not a
socket and refuses `F_SETFL`), the registration is rejected and the descriptor handed over is
closed exactly once, by the drop of the `WakeFd` that already owns it; otherwise nothing is closed
by `register_raw` itself. -/
theorem C13_rejected_registration_closes_once (fd : Fd) :
    ((prepare fd).1 = none → (prepare fd).2.closes = fd.closes + 1 ∧ fd.kind = .other) ∧
    ((prepare fd).1 ≠ none → (prepare fd).2.closes = fd.closes) := by
  obtain ⟨k, nb, fl, cp, cl, em⟩ := fd
  cases k <;> simp [prepare, probe, setFlagsOk, classify]
  all_goals (try (split <;> simp))

/-- closing happens through exactly one `drop` of the owning action (C01: released exactly once
by the remover; C14: released on every rejection path): one `close` per owner -/
theorem C13_closed_once (fd : Fd) : (close fd).closes = fd.closes + 1 := rfl

/-! ## non-vacuity -/
example : (burst (classify ⟨.dgram, false, 3, 3, 0, 0⟩).1 (classify ⟨.dgram, false, 3, 3, 0, 0⟩).2 2).2 = [.eagain, .eagain] := by decide
example : (burst (classify ⟨.pipe, false, 0, 2, 0, 0⟩).1 (classify ⟨.pipe, false, 0, 2, 0, 0⟩).2 3).2 = [.wrote, .wrote, .eagain] := by decide
/-- what the seeded slip "Write without O_NONBLOCK on a full datagram socket" would do -/
example : (wake .write ⟨.dgram, false, 3, 3, 0, 0⟩).2 = .blocks := by decide

/-- **C13.wake_skeleton** — tie to the source (regenerated): a wake-up is one call and nothing else - a
one-byte `write` for descriptors classified `Write` (made non-blocking at registration), a one-byte `send`
with `MSG_DONTWAIT` for sockets - no loop, no second attempt, no other system call. -/
theorem C13_wake_skeleton :
    skelOf "src/low_level/pipe.rs" "wake#1" = ["write", "send.nowait"] := by decide


/-- **C13.wakefd_drop_skeleton** — tie to the source (regenerated): the owner of the write end closes it when it is
dropped - one `close` of its own descriptor, no condition on the descriptor's number or anything else, no way around
it: the model's `close` (`C13_closed_once`, `C13_rejected_registration_closes_once`) for every descriptor. -/
theorem C13_wakefd_drop_skeleton :
    skelOf "src/low_level/pipe.rs" "drop@libc::close" = ["close.fd"] := by decide


/-- the method chosen for a descriptor and whether it may block depend only on what `close` leaves alone -/
theorem burst_close (m : Method) (fd : Fd) (n : Nat) : (burst m (close fd) n).2 = (burst m fd n).2 := by
  induction n generalizing fd with
  | zero => rfl
  | succ n ih =>
    simp only [burst]
    have hw : (wake m (close fd)).2 = (wake m fd).2 := by
      by_cases h : fd.fill + fd.empties < fd.cap <;> cases m <;> (simp [wake, close, h] <;> try rfl)
    have hf : (wake m (close fd)).1 = close (wake m fd).1 := by
      by_cases h : fd.fill + fd.empties < fd.cap <;> cases m <;> (simp [wake, close, h] <;> try rfl)
    rw [hw, hf, ih]

/-- **C13.shared_description_never_blocks** — two registrations on descriptors that share one open file
description (`dup`): each classifies the description when it registers; when the first registration goes away
its descriptor is closed, which leaves the description - its `O_NONBLOCK`, its contents - as it is; no wake-up
of the second registration can block afterwards, whatever the description's kind, flags and fill were. -/
theorem C13_shared_description_never_blocks (fd : Fd) (n : Nat) :
    let fd1 := (classify fd).2                 -- after the first registration
    let m2 := (classify fd1).1                 -- the second registration's method
    let fd2 := (classify fd1).2
    ∀ r ∈ (burst m2 (close fd2) n).2, r ≠ .blocks := by
  intro fd1 m2 fd2
  rw [burst_close]
  exact C13_never_blocks fd1 n

/-! ## Round sixteen: arbitrary interleavings of deliveries and reads

`burst` is `n` deliveries in a row. A reader drains between deliveries at moments of its own choosing; the two
statements below are over every such history. -/

inductive PipeOp where | wake | drain
deriving DecidableEq, Repr

/-- run a history of deliveries and complete reads -/
def runOps (m : Method) : Fd → List PipeOp → Fd × List WakeRes
  | fd, [] => (fd, [])
  | fd, .wake :: ops =>
    let r := wake m fd
    let rest := runOps m r.1 ops
    (rest.1, r.2 :: rest.2)
  | fd, .drain :: ops => runOps m (drain fd).1 ops

theorem wake_nonblock (m : Method) (fd : Fd) : (wake m fd).1.nonblock = fd.nonblock ∧ (wake m fd).1.cap = fd.cap := by
  simp only [wake]; split <;> (try cases m) <;> simp

/-- **C13.history_never_blocks** — for every descriptor handed to `register_raw` and every history of deliveries and
reads, no wake-up blocks. -/
theorem C13_history_never_blocks (fd : Fd) (ops : List PipeOp) :
    ∀ r ∈ (runOps (classify fd).1 (classify fd).2 ops).2, r ≠ .blocks := by
  have key : ∀ (m : Method) (ops : List PipeOp) (f : Fd), (m = .write → f.nonblock = true) →
      ∀ r ∈ (runOps m f ops).2, r ≠ .blocks := by
    intro m ops
    induction ops with
    | nil => intro f _ r hr; simp [runOps] at hr
    | cons op ops ih =>
      intro f hm r hr
      cases op with
      | drain =>
        simp only [runOps] at hr
        exact ih (drain f).1 (by intro h; simpa [drain] using hm h) r hr
      | wake =>
        simp only [runOps, List.mem_cons] at hr
        rcases hr with hr | hr
        · subst hr
          simp only [wake]
          split
          · simp
          · cases m with
            | send => simp
            | write => simp [hm rfl]
        · exact ih (wake m f).1 (by intro h; rw [(wake_nonblock m f).1]; exact hm h) r hr
  apply key
  intro hm
  simp only [classify] at hm ⊢
  split at hm <;> simp_all

theorem runOps_cap (m : Method) (ops : List PipeOp) (fd : Fd) : (runOps m fd ops).1.cap = fd.cap := by
  induction ops generalizing fd with
  | nil => rfl
  | cons op ops ih =>
    cases op with
    | wake => simp only [runOps]; rw [ih, (wake_nonblock m fd).2]
    | drain => simp only [runOps]; rw [ih]; rfl

theorem runOps_append (m : Method) (a b : List PipeOp) (fd : Fd) :
    (runOps m fd (a ++ b)).1 = (runOps m (runOps m fd a).1 b).1 := by
  induction a generalizing fd with
  | nil => rfl
  | cons op a ih => cases op <;> simp only [List.cons_append, runOps] <;> exact ih _

/-- **C13.history_wakeup_not_lost** — in every history, if a delivery happened after the reader's last read, the
descriptor is readable at the end (something is queued), whatever happened before and however full the queue was. -/
theorem C13_history_wakeup_not_lost (m : Method) (fd : Fd) (pre post : List PipeOp) (hcap : 0 < fd.cap)
    (hpost : ∀ op ∈ post, op = .wake) :
    let e := (runOps m fd (pre ++ .wake :: post)).1
    0 < e.fill + e.empties := by
  simp only
  rw [runOps_append]
  have hc : (runOps m fd pre).1.cap = fd.cap := runOps_cap m pre fd
  generalize (runOps m fd pre).1 = f at hc
  have h1 : 0 < (wake m f).1.fill + (wake m f).1.empties := by
    simp only [wake]; split <;> (try cases m) <;> simp <;> omega
  simp only [runOps]
  generalize (wake m f).1 = g at h1
  induction post generalizing g with
  | nil => simpa [runOps] using h1
  | cons op post ih =>
    have hop : op = .wake := hpost op (by simp)
    subst hop
    simp only [runOps]
    apply ih (fun o ho => hpost o (by simp [ho]))
    simp only [wake]; split <;> (try cases m) <;> simp <;> omega

example : (runOps .write ⟨.pipe, true, 0, 2, 0, 0⟩ [.wake, .wake, .wake, .drain, .wake]).2 =
    [.wrote, .wrote, .eagain, .wrote] := by decide

end SigHook.Pipe
