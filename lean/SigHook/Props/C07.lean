import SigHook.Props.Packed
import SigHook.Model.ChannelGen
import SigHook.Lemmas.ChannelInv
/-!
# C07 — Channel cells are never accessed concurrently; values dropped exactly once

> Under the memory orderings the channel declares (not merely on strongly ordered hardware), the
> write of a payload happens-before the receive that takes it, and that take happens-before any
> later send reusing the cell; no two threads ever access a cell without such ordering. Every value
> passed to send is dropped exactly once - by the receiver, by send itself when the channel is
> full, or when the channel is dropped - never leaked and never dropped twice.

The model (`Model/Channel.lean`) detects a race when a thread accesses a cell without having
observed (through release/acquire on the two queues) every earlier access to that cell.
-/
namespace SigHook.Channel
open SigHook

/-- **C07.orderings_side_condition** — the orderings the source declares (regenerated on every
run): the successful enqueue compare-exchange releases, the successful dequeue compare-exchange
acquires. This is the hypothesis of the race-freedom argument; weakening either one breaks this
theorem. -/
theorem C07_orderings_side_condition :
    genOrders.enqSucc.hasRelease = true ∧ genOrders.deqSucc.hasAcquire = true := by decide

/- (A theorem that pinned the *exact* orderings of the current source used to stand here. It made any
strengthening of an ordering - which keeps every theorem of this file true - break an obligation, and is gone:
what the argument needs is the side condition above, nothing else.) -/

def relaxedEnq : Orders := { genOrders with enqSucc := .relaxed }
def relaxedDeq : Orders := { genOrders with deqSucc := .relaxed }

def racy (o : Orders) (scripts : List (List Cmd)) (sched : List (Nat × Choice)) : Bool :=
  (runSched o (Sys.init scripts) sched).2.any (·.race)

def oneEach : List (List Cmd) := [[.send 1], [.recv]]
def oneEachSched : List (Nat × Choice) :=
  (List.replicate 5 (0, ({} : Choice))) ++ (List.replicate 5 (1, ({} : Choice)))

/-- **C07.needs_release** — the side condition is not vacuous: with the enqueue success ordering
downgraded to `Relaxed` the model reaches a data race (the receiver takes the payload without
having observed the sender's write), on the simplest possible execution. -/
theorem C07_needs_release : racy relaxedEnq oneEach oneEachSched = true := by decide +kernel

/-- **C07.needs_acquire** — likewise with the dequeue success ordering downgraded. -/
theorem C07_needs_acquire : racy relaxedDeq oneEach oneEachSched = true := by decide +kernel

/-- with the declared orderings the same execution is race free -/
theorem C07_declared_ok_on_witness : racy genOrders oneEach oneEachSched = false := by decide +kernel

/-- a send, a receive, and a second send reusing the cell (the take must happen-before the
second write), under the declared orderings: no race, and with stale reads forced wherever the
memory model allows them -/
def reuse : List (List Cmd) := [[.send 1, .send 2, .send 3, .send 4, .send 5, .send 6], [.recv], [.send 7]]
def reuseSched : List (Nat × Choice) :=
  (List.replicate 26 (0, ({} : Choice))) ++ (List.replicate 5 (1, ({ read := some 0 } : Choice))) ++
  (List.replicate 5 (2, ({ read := some 0 } : Choice)))

theorem C07_reuse_ok : racy genOrders reuse reuseSched = false := by decide +kernel


/-! ## Race freedom for every execution (any number of threads, any scripts, every interleaving,
every stale read and spurious compare-exchange failure the memory model allows)

`Lemmas/ChannelInv.lean` proves an invariant of the view-based model (`Inv`): every slot index has
exactly one holder; the owner of an index has observed every earlier access to its cell, and so
has the latest message of a queue for each index it contains. It is preserved by every step
provided the successful enqueue compare-exchange releases and the successful dequeue
compare-exchange acquires - exactly `C07_orderings_side_condition`. -/

/-- **C07.race_free** — with any orderings that satisfy the side condition, no step of any
reachable state is a data race on a payload cell. -/
theorem C07_race_free {o : Orders} (hrel : o.enqSucc.hasRelease = true) (hacq : o.deqSucc.hasAcquire = true)
    {scripts : List (List Cmd)} {s s' : Sys} {t : Nat} {c : Choice} {out : Out}
    (hr : Reachable o scripts s) (hs : step o s t c = some (s', out)) : out.race = false :=
  (inv_step hrel hacq (inv_reachable hrel hacq hr) hs).2.2

/-- **C07.race_free_declared** — the orderings the source declares today (regenerated) are such
orderings: the channel as written is race free under the model. -/
theorem C07_race_free_declared {scripts : List (List Cmd)} {s s' : Sys} {t : Nat} {c : Choice} {out : Out}
    (hr : Reachable genOrders scripts s) (hs : step genOrders s t c = some (s', out)) : out.race = false :=
  C07_race_free C07_orderings_side_condition.1 C07_orderings_side_condition.2 hr hs

/-- **C07.cell_has_one_owner** — in every reachable state each slot index is held by exactly one
of: the `empty` queue's latest value, the `full` queue's latest value, one thread (which is the
only one that may touch the cell). -/
theorem C07_cell_has_one_owner {scripts : List (List Cmd)} {s : Sys} (hr : Reachable genOrders scripts s) :
    ∀ idx ∈ idxs, holders s idx = 1 :=
  (inv_reachable C07_orderings_side_condition.1 C07_orderings_side_condition.2 hr).hold

end SigHook.Channel
