import SigHook.Gen.Consts
import SigHook.Model.Iterator
/-
L8q — the signal iterator back end with a *queueing* exfiltrator (`WithRawSiginfo`, `WithOrigin`:
one `low_level::channel::Channel` of `SLOTS` records per signal) as a step machine. Same control flow
as L8 (`Model/Iterator.lean`: deliveries store THEN wake, `close()`, one consumer running
`pending` / `wait` / `poll` / `forever`), but a slot holds a FIFO of records instead of a flag, and
both `send` and `recv` take two steps each, because that is what the channel does:

* `send`:  take an index out of the channel's `empty` queue (or find none: the record is dropped),
           fill the cell, THEN append the index to `full`;
* `recv`:  take the head index out of `full` (or find none), empty the cell, THEN give the index back
           to `empty`.

Between its two steps an operation *holds* one of the channel's `SLOTS` indexes (`Thread.holds`, read
off the program counter); a `send` is dropped exactly when all of them are queued or held. The channel's own correctness at the level of
its atomic words (FIFO of indexes, exclusive cells, no panic) is C06-C08; here it is used through
that interface. Sequential consistency, as L8.

Anchors: `exfiltrator/raw.rs:71-85` (`store` = `send`, `load` = `recv`), `channel.rs:152-170`,
`backend.rs:394-407` (`Pending::next` stays on a slot that produced a record).
-/
namespace SigHook.IterQ
open SigHook
open SigHook.Iter (Cmd Mode)

/-- a record: (signal, id of the delivery that produced it) -/
abbrev Rec := Nat × Nat

inductive Pc where
  | idle
  /-- delivery: index reserved and cell filled; next: append to `full` -/
  | dEnq (sig id : Nat)
  /-- delivery: the wake after the store (`id`: of this delivery, also when its record was dropped) -/
  | dWake (sig id : Nat)
  | cWake
  | flush (m : Mode)
  /-- draining a fresh `Pending`: next `recv` is on the slot of `pos` -/
  | scan (m : Mode) (pos : Nat)
  /-- a record taken at `pos`; next: give the index back, then yield the record -/
  | scanFin (m : Mode) (pos id : Nat)
  | psClosed (m : Mode)
  | psNext (m : Mode)
  /-- `poll_signal`: a record taken at the iterator's position; next: give the index back, yield -/
  | psFin (m : Mode) (id : Nat)
  | ppClosed (m : Mode)
  | ppCallback (m : Mode)
  | psRecheck (m : Mode)
deriving DecidableEq, Repr

structure Thread where
  script : List Cmd
  pc : Pc
  iterPos : Nat := 0
  consulted : Option Bool := none
deriving Repr

structure Sys where
  watched : List Nat
  /-- the records in the `full` queues, oldest first (the queue of one signal is the sub-list of its
      records) -/
  q : List Rec
  pipe : Nat
  cap : Nat
  closed : Bool
  threads : List Thread
  nextId : Nat
  -- ghost state for the property statements
  /-- deliveries begun, newest first -/
  begun : List Rec
  /-- records appended to a `full` queue so far, oldest first -/
  sent : List Rec
  /-- records whose delivery found no free index, newest first -/
  dropped : List Rec
  /-- ids of the deliveries whose wake-up has completed -/
  woken : List Nat
  /-- records handed to the consumer so far, oldest first -/
  yields : List Rec
deriving Repr

def Sys.init (watched : List Nat) (cap pipe : Nat) (scripts : List (List Cmd)) : Sys :=
  { watched := watched, q := [], pipe := pipe, cap := cap, closed := false,
    threads := scripts.map (fun s => { script := s, pc := .idle }), nextId := 1,
    begun := [], sent := [], dropped := [], woken := [], yields := [] }

inductive Obs where
  /-- `send`: `dequeue(empty)` answered (an index / nothing) -/
  | sendBegin (sig : Nat) (ok : Bool)
  /-- `send`: `enqueue(full)` succeeded -/
  | sendEnd (sig : Nat)
  | storeClosed
  | wake (ok : Bool)
  | loadClosed (v : Bool)
  | recv (n : Int)
  /-- `recv` on the slot of `pos`: `dequeue(full)` answered (an index / nothing) -/
  | recvBegin (pos : Nat) (some : Bool)
  /-- `recv`: `enqueue(empty)` succeeded -/
  | recvEnd (pos : Nat)
  | callback (blocking : Bool) (answer : Bool)
deriving DecidableEq, Repr

inductive Ret where
  | done
  | pollSignal (r : Rec)
  | pollPending
  | pollClosed
deriving DecidableEq, Repr

structure Out where
  obs : Obs
  yielded : Option Rec := none
  ret : Option Ret := none
deriving Repr

def maxSig : Nat := Gen.MAX_SIGNUM
def slots : Nat := Gen.SLOTS

def setT (s : Sys) (t : Nat) (th : Thread) : Sys := { s with threads := s.threads.set t th }

def blocking : Mode → Bool
  | .poll => false
  | _ => true

/-- the records of signal `sig` in the queue, oldest first -/
def qOf (q : List Rec) (sig : Nat) : List Rec := q.filter (fun r => r.1 == sig)

/-- the thread holds an index of `sig`'s channel out of both queues: it is between the two steps of
a `send` or of a `recv` on that channel -/
def Thread.holds (sig : Nat) (th : Thread) : Bool :=
  match th.pc with
  | .dEnq s _ => s == sig
  | .scanFin _ p _ => p == sig
  | .psFin _ _ => th.iterPos == sig
  | _ => false

/-- how many of the `SLOTS` indexes of `sig`'s channel are queued or held -/
def busy (s : Sys) (sig : Nat) : Nat := (qOf s.q sig).length + s.threads.countP (Thread.holds sig)

/-- the oldest queued record of `sig` -/
def headOf (q : List Rec) (sig : Nat) : Option Rec := q.find? (fun r => r.1 == sig)

def step (recheck : Bool) (s : Sys) (t : Nat) : Option (Sys × Out) :=
  match s.threads[t]? with
  | none => none
  | some th =>
    match th.pc with
    | .idle =>
      match th.script with
      | [] => none
      | .deliver sig :: rest =>
        let id := s.nextId
        if s.watched.contains sig && busy s sig < slots then
          some (setT { s with nextId := id + 1, begun := (sig, id) :: s.begun } t
                  { th with script := rest, pc := .dEnq sig id }, { obs := .sendBegin sig true })
        else
          some (setT { s with nextId := id + 1, begun := (sig, id) :: s.begun, dropped := (sig, id) :: s.dropped } t
                  { th with script := rest, pc := .dWake sig id }, { obs := .sendBegin sig false })
      | .close :: rest =>
        some (setT { s with closed := true } t { th with script := rest, pc := .cWake }, { obs := .storeClosed })
      | .pending :: rest => stepFlush s t { th with script := rest } .pending
      | .wait :: rest =>
        some (setT s t { th with script := rest, consulted := none, pc := if s.closed then .flush .wait else .ppCallback .wait },
              { obs := .loadClosed s.closed })
      | .poll :: rest => stepPsClosed s t { th with script := rest, consulted := none } .poll
      | .forever :: rest => stepPsClosed s t { th with script := rest, consulted := none } .forever
    | .dEnq sig id =>
      some (setT { s with q := s.q ++ [(sig, id)], sent := s.sent ++ [(sig, id)] } t
              { th with pc := .dWake sig id }, { obs := .sendEnd sig })
    | .dWake _ id =>
      let ok := s.pipe < s.cap
      some (setT { s with pipe := if ok then s.pipe + 1 else s.pipe, woken := id :: s.woken } t
              { th with pc := .idle }, { obs := .wake ok, ret := some .done })
    | .cWake =>
      let ok := s.pipe < s.cap
      some (setT { s with pipe := if ok then s.pipe + 1 else s.pipe } t { th with pc := .idle },
            { obs := .wake ok, ret := some .done })
    | .flush m => stepFlush s t th m
    | .scan m pos =>
      if pos < maxSig then
        match headOf s.q pos with
        | some r =>
          some (setT { s with q := s.q.erase r } t
                  { th with pc := .scanFin m pos r.2 }, { obs := .recvBegin pos true })
        | none =>
          let last := pos + 1 == maxSig
          some (setT s t { th with pc := if last then .idle else .scan m (pos + 1) },
                { obs := .recvBegin pos false, ret := if last then some .done else none })
      else some (setT s t { th with pc := .idle }, { obs := .recvBegin pos false, ret := some .done })
    | .scanFin m pos id =>
      some (setT { s with yields := s.yields ++ [(pos, id)] } t
              { th with pc := .scan m pos }, { obs := .recvEnd pos, yielded := some (pos, id) })
    | .psClosed m => stepPsClosed s t th m
    | .psNext m =>
      let pos := th.iterPos
      match headOf s.q pos with
      | some r =>
        some (setT { s with q := s.q.erase r } t
                { th with pc := .psFin m r.2 }, { obs := .recvBegin pos true })
      | none =>
        let pos' := pos + 1
        some (setT s t { th with iterPos := pos', pc := if pos' < maxSig then .psNext m else .ppClosed m },
              { obs := .recvBegin pos false })
    | .psFin m id =>
      let pos := th.iterPos
      let s' := { s with yields := s.yields ++ [(pos, id)] }
      match m with
      | .forever => some (setT s' t { th with pc := .psClosed m }, { obs := .recvEnd pos, yielded := some (pos, id) })
      | _ => some (setT s' t { th with pc := .idle },
                   { obs := .recvEnd pos, yielded := some (pos, id), ret := some (.pollSignal (pos, id)) })
    | .ppClosed m =>
      if s.closed then
        if recheck then some (setT s t { th with pc := .psRecheck m }, { obs := .loadClosed true })
        else
          match m with
          | .forever => some (setT s t { th with pc := .psClosed m }, { obs := .loadClosed true })
          | _ => some (setT s t { th with pc := .idle }, { obs := .loadClosed true, ret := some .pollPending })
      else some (setT s t { th with pc := .ppCallback m }, { obs := .loadClosed false })
    | .psRecheck m =>
      if s.closed then
        some (setT s t { th with pc := .idle }, { obs := .loadClosed true, ret := some .pollClosed })
      else
        match m with
        | .forever => some (setT s t { th with pc := .psClosed m }, { obs := .loadClosed false })
        | _ => some (setT s t { th with pc := .idle }, { obs := .loadClosed false, ret := some .pollPending })
    | .ppCallback m =>
      if blocking m then
        if s.pipe = 0 then none
        else some (setT { s with pipe := s.pipe - 1 } t { th with consulted := some true, pc := .flush m },
                   { obs := .callback true true })
      else if s.pipe = 0 then
        if recheck then
          some (setT s t { th with consulted := some false, pc := .psRecheck m }, { obs := .callback false false })
        else
          some (setT s t { th with consulted := some false, pc := .idle },
                { obs := .callback false false, ret := some .pollPending })
      else
        some (setT { s with pipe := s.pipe - 1 } t { th with consulted := some true, pc := .flush m },
              { obs := .callback false true })
where
  stepFlush (s : Sys) (t : Nat) (th : Thread) (m : Mode) : Option (Sys × Out) :=
    if s.pipe > 0 then
      let n := min s.pipe 1024
      some (setT { s with pipe := s.pipe - n } t { th with pc := .flush m }, { obs := .recv n })
    else
      match m with
      | .pending | .wait => some (setT s t { th with pc := .scan m 0 }, { obs := .recv (-1) })
      | _ => some (setT s t { th with iterPos := 0, pc := .psClosed m }, { obs := .recv (-1) })
  stepPsClosed (s : Sys) (t : Nat) (th : Thread) (m : Mode) : Option (Sys × Out) :=
    if s.closed then
      some (setT s t { th with pc := .idle }, { obs := .loadClosed true, ret := some .pollClosed })
    else some (setT s t { th with pc := if th.iterPos < maxSig then .psNext m else .ppClosed m },
               { obs := .loadClosed false })

/-- reachability by any schedule -/
inductive Reachable (recheck : Bool) (watched : List Nat) (cap pipe : Nat) (scripts : List (List Cmd)) : Sys → Prop where
  | init : Reachable recheck watched cap pipe scripts (Sys.init watched cap pipe scripts)
  | step {s s' : Sys} {t : Nat} {o : Out} :
      Reachable recheck watched cap pipe scripts s → step recheck s t = some (s', o) →
      Reachable recheck watched cap pipe scripts s'

end SigHook.IterQ
