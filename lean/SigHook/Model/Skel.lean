import SigHook.Gen.Skeleton
/-! Lookup in the call skeletons regenerated from the source. -/
namespace SigHook

/-- the ordered calls the translator found in function `fn` of `file` (empty if it found none) -/
def skelOf (file fn : String) : List String :=
  match Gen.skeleton.find? (fun r => r.1 == file && r.2.1 == fn) with
  | some r => r.2.2
  | none => []

def regFile := "signal-hook-registry/src/lib.rs"
def chanFile := "src/low_level/channel.rs"
def backendFile := "src/iterator/backend.rs"

end SigHook
