import SigHook.Model.RegistrySeq
/-
L10 — the registration entry points and the `Signals` instance bookkeeping (sequential).

Entry points (all end in `register_sigaction_impl` / `register_unchecked_impl` of L5):
`registry::register`, `register_sigaction` (checked), `register_signal_unchecked`,
`register_unchecked` (unchecked), `flag::register`, `register_usize`,
`register_conditional_shutdown`, `register_conditional_default`, `pipe::register`,
`pipe::register_raw`, and the iterator front-ends `Signals::new` / `SignalsInfo::new` /
`SignalDelivery::with_pipe` / `add_signal` (instance and handle).

Instance (`backend.rs:48-71,119-147,192-204`, `raw.rs:87-94`): a table of 128 optional ids under a
mutex (with `std`'s poison flag), lazily initialised per-signal channels for the info-carrying
exfiltrators. `tolerant` / `idem` describe the shape of the source (generated):
`tolerant` = both `lock()` sites ignore poisoning; `idem` = `WithRawSiginfo::init` is idempotent.
-/
namespace SigHook.Entry
open SigHook.Registry (Env State Out Disp lookup)

inductive Exf where | only | raw
deriving DecidableEq, Repr

structure Shape where
  tolerant : Bool
  idem : Bool
deriving DecidableEq, Repr

structure Inst where
  exf : Exf
  ids : List (Int × Nat)
  inited : List Int
  poisoned : Bool
deriving Repr

structure World where
  reg : State
  inst : Option Inst
deriving Repr

def World.init : World := { reg := State.init, inst := none }

inductive Res where
  | ok | err | panic | abort
deriving DecidableEq, Repr

def maxSignum : Int := 128

/-- which entry points check `FORBIDDEN` -/
inductive Entry where
  | register | registerSigaction | registerSignalUnchecked | registerUnchecked
  | flag | flagUsize | condShutdown | condDefault | pipe | pipeRaw | pipeDgram
deriving DecidableEq, Repr

def Entry.checked : Entry → Bool
  | .registerSignalUnchecked | .registerUnchecked => false
  | _ => true

/-- one call of a plain (non-iterator) entry point: result, new registry state, and whether the
resources handed in (the `Arc`'d flag / the descriptor / the closure's captures) are still held by
the library afterwards. `known sig` = `signal_name(sig).is_some()` (only `condDefault` looks). -/
def callEntry (env : Env) (known : Int → Bool) (s : State) (e : Entry) (sig : Int) (tag : Nat) :
    State × Res × Bool :=
  if e = .condDefault ∧ !(known sig) then (s, .err, false)
  else
    let r := if e.checked then Registry.register env s sig tag else Registry.registerUnchecked env s sig tag
    match r.2 with
    | .id _ _ => (r.1, .ok, true)
    | .panic => (r.1, .panic, false)
    | _ => (r.1, .err, false)

/-- `Drop for DeliveryState` on a non-poisoned (or tolerated) table: unregister every recorded id -/
def unregisterAll (s : State) : List (Int × Nat) → State
  | [] => s
  | (sig, id) :: rest => unregisterAll (Registry.unregister s sig id).1 rest

/-- `Handle::add_signal` -/
def addSignal (env : Env) (sh : Shape) (w : World) (n : Int) (tag : Nat) : World × Res :=
  match w.inst with
  | none => (w, .ok)
  | some i =>
    -- self.delivery_state.registered_signal_ids.lock()
    if i.poisoned && !sh.tolerant then (w, .panic)
    else
      -- lock[signal as usize]
      if n < 0 ∨ n ≥ maxSignum then ({ w with inst := some { i with poisoned := true } }, .panic)
      else if (lookup n i.ids).isSome then (w, .ok)
      else
        -- exfiltrator.init(slot)
        if i.exf = .raw ∧ i.inited.contains n ∧ !sh.idem then
          ({ w with inst := some { i with poisoned := true } }, .panic)
        else
          let inited := if i.exf = .raw ∧ !(i.inited.contains n) then n :: i.inited else i.inited
          let r := Registry.register env w.reg n tag
          match r.2 with
          | .id _ id => ({ reg := r.1, inst := some { i with ids := (n, id) :: i.ids, inited := inited } }, .ok)
          | .panic => ({ reg := r.1, inst := some { i with inited := inited, poisoned := true } }, .panic)
          | _ => ({ reg := r.1, inst := some { i with inited := inited } }, .err)

/-- dropping the instance together with all its handles -/
def dropInst (sh : Shape) (w : World) : World × Res :=
  match w.inst with
  | none => (w, .ok)
  | some i =>
    if i.poisoned && !sh.tolerant then ({ w with inst := none }, .panic)   -- registrations leak
    else ({ reg := unregisterAll w.reg i.ids, inst := none }, .ok)

/-- `Signals::new` / `SignalsInfo::with_exfiltrator` / `SignalDelivery::with_pipe` -/
def newInst (env : Env) (sh : Shape) (w : World) (exf : Exf) (sigs : List (Int × Nat)) : World × Res :=
  let w0 : World := { w with inst := some { exf := exf, ids := [], inited := [], poisoned := false } }
  let rec go (w : World) : List (Int × Nat) → World × Res
    | [] => (w, .ok)
    | (n, tag) :: rest =>
      let r := addSignal env sh w n tag
      match r.2 with
      | .ok => go r.1 rest
      | .err =>
        -- `?`: the half-built instance is dropped normally
        ((dropInst sh r.1).1, .err)
      | _ =>
        -- unwinding drops the half-built instance; a panic in that destructor aborts the process
        let d := dropInst sh r.1
        if d.2 = .panic then (d.1, .abort) else (d.1, .panic)
  go w0 sigs

end SigHook.Entry
