/-
L5 — sequential model of `signal-hook-registry` (lib.rs).

One total function per public entry point, returning the new state and the observable result.
Anchors: `register_sigaction_impl` (lib.rs:528-538), `register_unchecked_impl` (lib.rs:577-623),
`unregister` (lib.rs:642-654), `unregister_signal` (lib.rs:664-679), `handler` (lib.rs:352-388),
`Slot::new` (lib.rs:157-188), `Prev::detect/execute` (lib.rs:216-266).

Import-free on purpose (the driver executable links against it).
-/
namespace SigHook.Registry

local notation "Sig" => Int
local notation "Tag" => Nat
local notation "ActionId" => Nat

/-- A signal disposition as the kernel stores it. `h1`/`h3` are foreign handlers installed
without / with `SA_SIGINFO`; `lib flags` is this library's dispatcher installed with `flags`. -/
inductive Disp where
  | dfl
  | ign
  | h1 (f : Nat)
  | h3 (f : Nat)
  | lib (flags : Nat)
deriving DecidableEq, Repr, Inhabited

/-- What is assumed of the operating system and of constants generated from the source. -/
structure Env where
  /-- `sigaction(sig, NULL, &old)` fails. -/
  rejectsQuery : Sig → Bool
  /-- `sigaction(sig, &new, &old)` fails. -/
  rejectsSet : Sig → Bool
  /-- `FORBIDDEN` (generated). -/
  forbidden : List Sig
  /-- flags installed by `Slot::new` (generated). -/
  libFlags : Nat

structure Slot where
  prev : Disp
  /-- `BTreeMap<ActionId, Arc<Action>>`: kept sorted by key, iterated in key order. -/
  actions : List (ActionId × Tag)
deriving Repr

structure State where
  /-- `HashMap<c_int, Slot>` as an association list with unique keys. -/
  signals : List (Sig × Slot)
  nextId : Nat
  /-- `race_fallback` -/
  fallback : Option (Sig × Disp)
  /-- kernel disposition table; absent = default -/
  disp : List (Sig × Disp)
deriving Repr

def State.init : State := { signals := [], nextId := 1, fallback := none, disp := [] }

/-! ### association-list helpers (HashMap / kernel table) -/

def lookup {β} (k : Sig) : List (Sig × β) → Option β
  | [] => none
  | (k', v) :: rest => if k' = k then some v else lookup k rest

def update {β} (k : Sig) (v : β) : List (Sig × β) → List (Sig × β)
  | [] => [(k, v)]
  | (k', v') :: rest => if k' = k then (k, v) :: rest else (k', v') :: update k v rest

def dispOf (s : State) (sig : Sig) : Disp := (lookup sig s.disp).getD .dfl

/-! ### BTreeMap helpers -/

/-- `BTreeMap::insert`: returns the new map and whether the key was already present. -/
def btInsert (id : ActionId) (t : Tag) : List (ActionId × Tag) → List (ActionId × Tag) × Bool
  | [] => ([(id, t)], false)
  | (k, v) :: rest =>
    if id < k then ((id, t) :: (k, v) :: rest, false)
    else if id = k then ((id, t) :: rest, true)
    else
      let r := btInsert id t rest
      ((k, v) :: r.1, r.2)

/-- `BTreeMap::remove(..).is_some()` -/
def btRemove (id : ActionId) : List (ActionId × Tag) → List (ActionId × Tag) × Bool
  | [] => ([], false)
  | (k, v) :: rest =>
    if k = id then (rest, true)
    else
      let r := btRemove id rest
      ((k, v) :: r.1, r.2)

/-! ### observable results -/

inductive Out where
  /-- `Ok(SigId { signal, action })` -/
  | id (sig : Sig) (id : ActionId)
  /-- `Err(_)` from the OS -/
  | err
  /-- catchable panic (forbidden signal) -/
  | panic
  /-- internal assertion failure (`insert(..).is_none()`), proved unreachable -/
  | bug
  | bool (b : Bool)
  /-- the library dispatcher ran: the chained previous handler (if it is a real one) and the
      tags of the actions, in execution order -/
  | ran (prev : Option Disp) (tags : List Tag)
  /-- the kernel did not enter the library (disposition is not `lib`) -/
  | notOurs (d : Disp)
deriving DecidableEq, Repr

inductive Op where
  | register (sig : Sig) (tag : Tag)
  | registerUnchecked (sig : Sig) (tag : Tag)
  | unregister (sig : Sig) (id : ActionId)
  | unregisterSignal (sig : Sig)
  | deliver (sig : Sig)
  /-- somebody outside the library installs a disposition (only meaningful before takeover) -/
  | foreign (sig : Sig) (d : Disp)
deriving Repr

/-- `Prev::execute`: which foreign handler, if any, is called. -/
def prevCalled : Disp → Option Disp
  | .h1 f => some (.h1 f)
  | .h3 f => some (.h3 f)
  | _ => none

/-- `register_unchecked_impl` -/
def registerUnchecked (env : Env) (s : State) (sig : Sig) (tag : Tag) : State × Out :=
  let id := s.nextId
  match lookup sig s.signals with
  | some slot =>
    let r := btInsert id tag slot.actions
    if r.2 then (s, .bug)
    else
      ({ s with signals := update sig { slot with actions := r.1 } s.signals, nextId := id + 1 },
       .id sig id)
  | none =>
    -- Prev::detect(signal)?
    if env.rejectsQuery sig then (s, .err)
    else
      let prev := dispOf s sig
      -- race_fallback.write().store(Some(prev))
      let s1 := { s with fallback := some (sig, prev) }
      -- Slot::new(signal)?
      if env.rejectsSet sig then (s1, .err)
      else
        let s2 := { s1 with disp := update sig (.lib env.libFlags) s1.disp }
        let slot : Slot := { prev := prev, actions := [(id, tag)] }
        ({ s2 with signals := update sig slot s2.signals, nextId := id + 1 }, .id sig id)

/-- `register_sigaction_impl` -/
def register (env : Env) (s : State) (sig : Sig) (tag : Tag) : State × Out :=
  if env.forbidden.contains sig then (s, .panic) else registerUnchecked env s sig tag

/-- `unregister` -/
def unregister (s : State) (sig : Sig) (id : ActionId) : State × Out :=
  match lookup sig s.signals with
  | some slot =>
    let r := btRemove id slot.actions
    if r.2 then
      ({ s with signals := update sig { slot with actions := r.1 } s.signals }, .bool true)
    else (s, .bool false)
  | none => (s, .bool false)

/-- `unregister_signal` -/
def unregisterSignal (s : State) (sig : Sig) : State × Out :=
  match lookup sig s.signals with
  | some slot =>
    if slot.actions.isEmpty then (s, .bool false)
    else ({ s with signals := update sig { slot with actions := [] } s.signals }, .bool true)
  | none => (s, .bool false)

/-- the dispatcher `handler` run against a quiescent registry -/
def handler (s : State) (sig : Sig) : Out :=
  match lookup sig s.signals with
  | some slot => .ran (prevCalled slot.prev) (slot.actions.map (·.2))
  | none =>
    match s.fallback with
    | some (fsig, prev) => if fsig = sig then .ran (prevCalled prev) [] else .ran none []
    | none => .ran none []

/-- the kernel delivers `sig` -/
def deliver (s : State) (sig : Sig) : Out :=
  match dispOf s sig with
  | .lib _ => handler s sig
  | d => .notOurs d

def step (env : Env) (s : State) : Op → State × Out
  | .register sig tag => register env s sig tag
  | .registerUnchecked sig tag => registerUnchecked env s sig tag
  | .unregister sig id => unregister s sig id
  | .unregisterSignal sig => unregisterSignal s sig
  | .deliver sig => (s, deliver s sig)
  | .foreign sig d => ({ s with disp := update sig d s.disp }, .bool true)

/-- run a history, collecting the results -/
def run (env : Env) : State → List Op → State × List Out
  | s, [] => (s, [])
  | s, op :: ops =>
    let r := step env s op
    let rest := run env r.1 ops
    (rest.1, r.2 :: rest.2)

def runState (env : Env) (s : State) (ops : List Op) : State := (run env s ops).1
def runOuts (env : Env) (s : State) (ops : List Op) : List Out := (run env s ops).2

/-- actions currently registered for a signal, in execution order -/
def actionsOf (s : State) (sig : Sig) : List (ActionId × Tag) :=
  ((lookup sig s.signals).map (·.actions)).getD []

/-- has the library taken the signal over? -/
def taken (s : State) (sig : Sig) : Bool := (lookup sig s.signals).isSome

end SigHook.Registry
