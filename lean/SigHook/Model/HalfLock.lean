/-
L3 — `HalfLock` (signal-hook-registry/src/half_lock.rs) as a step machine, one shared-memory
operation (= one shim event) per step, under sequential consistency (all its atomics are SeqCst;
checked from `Gen.orderings`).

Any number of threads, each running a finite script of `read` / `write` commands
(the most general client of the half-lock). The payload is an abstract snapshot id.
-/
namespace SigHook.HalfLock

/-- one client command -/
inductive Cmd where
  /-- `read()`, use the pinned value `uses` times, drop the guard -/
  | read (uses : Nat)
  /-- `write()`, and `store(new)` iff `doStore`; if `bomb`, the new value's destructor will panic
      when it is eventually dropped (user code run by `drop(Box::from_raw(old))`) -/
  | write (doStore : Bool) (bomb : Bool)
deriving DecidableEq, Repr

/-- program counter of a thread; every constructor names the *next* operation -/
inductive Pc where
  | idle
  /-- `lock[g % 2].fetch_add(1)` (read#2) -/
  | rInc (g : Nat) (uses : Nat)
  /-- `data.load()` (read#3) -/
  | rData (slot : Nat) (uses : Nat)
  /-- holding `p`: `uses` more uses, then `lock.fetch_sub(1)` (ReadGuard::drop) -/
  | rUse (slot : Nat) (p : Nat) (uses : Nat)
  /-- `data.load()` in `write()` -/
  | wLoad (doStore : Bool) (bomb : Bool)
  /-- `Box::new` in `store` -/
  | wAlloc (bomb : Bool)
  /-- `data.swap(new)` -/
  | wSwap (new : Nat)
  /-- first `update_seen`: `lock[0].load()` -/
  | wSeen0 (old : Nat)
  /-- first `update_seen`: `lock[1].load()` -/
  | wSeen1 (old : Nat) (z0 : Bool)
  /-- `generation.fetch_add(1)` -/
  | wFlip (old : Nat) (z0 z1 : Bool)
  /-- spin / yield hint of loop iteration `iter` -/
  | wHint (old : Nat) (z0 z1 : Bool) (iter : Nat)
  | wLoop0 (old : Nat) (z0 z1 : Bool) (iter : Nat)
  | wLoop1 (old : Nat) (z0 z1 : Bool) (iter : Nat)
  /-- `drop(Box::from_raw(old))` -/
  | wFree (old : Nat)
  /-- guard drop: unlock the writer mutex (`panicking`: during unwinding, which poisons it) -/
  | wUnlock (panicking : Bool)
deriving DecidableEq, Repr

structure Thread where
  script : List Cmd
  pc : Pc
deriving Repr

structure Sys where
  data : Nat
  gen : Nat
  lock0 : Nat
  lock1 : Nat
  mutexOwner : Option Nat
  /-- the writer mutex is poisoned (ignored by `write()`) -/
  poisoned : Bool
  /-- snapshots whose destructor panics -/
  bombs : List Nat
  nextSnap : Nat
  /-- allocated and not yet freed snapshots -/
  live : List Nat
  /-- freed snapshots, newest first, with the thread that freed them -/
  freed : List (Nat × Nat)
  threads : List Thread
deriving Repr

def Sys.init (scripts : List (List Cmd)) : Sys :=
  { data := 0, gen := 0, lock0 := 0, lock1 := 0, mutexOwner := none, poisoned := false, bombs := [], nextSnap := 1, live := [0],
    freed := [], threads := scripts.map (fun s => { script := s, pc := .idle }) }

def Sys.lockOf (s : Sys) (slot : Nat) : Nat := if slot = 0 then s.lock0 else s.lock1

def Sys.setLock (s : Sys) (slot : Nat) (v : Nat) : Sys :=
  { s with lock0 := if slot = 0 then v else s.lock0, lock1 := if slot = 0 then s.lock1 else v }

/-- what the shim reports for a step -/
inductive Obs where
  | load (loc : String) (v : Nat)
  | fetchAdd (loc : String) (old : Nat)
  | fetchSub (loc : String) (old : Nat)
  | swap (loc : String) (new old : Nat)
  | mutexLock (poisoned : Bool)
  | mutexUnlock (panicking : Bool)
  | alloc (id : Nat)
  | free (id : Nat)
  | spin
  | yield
  | use (id : Nat)
deriving DecidableEq, Repr

/-- end of one `while` iteration of `write_barrier` -/
def afterLoop (old : Nat) (z0 z1 : Bool) (iter : Nat) : Pc :=
  if z0 && z1 then .wFree old else .wHint old z0 z1 (iter + 1)

def lockName (slot : Nat) : String := if slot = 0 then "lock0" else "lock1"

/-- One step of thread `t`. `none` = the thread is finished or not enabled (mutex held). -/
def step (yieldEvery : Nat) (s : Sys) (t : Nat) : Option (Sys × Obs) :=
  match s.threads[t]? with
  | none => none
  | some th =>
    let setT (s : Sys) (th' : Thread) : Sys := { s with threads := s.threads.set t th' }
    match th.pc with
    | .idle =>
      match th.script with
      | [] => none
      | .read uses :: rest =>
        some (setT s { script := rest, pc := .rInc s.gen uses }, .load "generation" s.gen)
      | .write st bomb :: rest =>
        match s.mutexOwner with
        | some _ => none
        | none => some (setT { s with mutexOwner := some t } { script := rest, pc := .wLoad st bomb },
                        .mutexLock s.poisoned)
    | .rInc g uses =>
      let slot := g % 2
      some (setT (s.setLock slot (s.lockOf slot + 1)) { th with pc := .rData slot uses },
            .fetchAdd (lockName slot) (s.lockOf slot))
    | .rData slot uses =>
      some (setT s { th with pc := .rUse slot s.data uses }, .load "data" s.data)
    | .rUse slot p (uses + 1) =>
      some (setT s { th with pc := .rUse slot p uses }, .use p)
    | .rUse slot _ 0 =>
      some (setT (s.setLock slot (s.lockOf slot - 1)) { th with pc := .idle },
            .fetchSub (lockName slot) (s.lockOf slot))
    | .wLoad st bomb =>
      some (setT s { th with pc := if st then .wAlloc bomb else .wUnlock false }, .load "data" s.data)
    | .wAlloc bomb =>
      let new := s.nextSnap
      some (setT { s with nextSnap := new + 1, live := new :: s.live,
                          bombs := if bomb then new :: s.bombs else s.bombs } { th with pc := .wSwap new },
            .alloc new)
    | .wSwap new =>
      some (setT { s with data := new } { th with pc := .wSeen0 s.data }, .swap "data" new s.data)
    | .wSeen0 old =>
      some (setT s { th with pc := .wSeen1 old (s.lock0 == 0) }, .load "lock0" s.lock0)
    | .wSeen1 old z0 =>
      some (setT s { th with pc := .wFlip old z0 (s.lock1 == 0) }, .load "lock1" s.lock1)
    | .wFlip old z0 z1 =>
      some (setT { s with gen := s.gen + 1 }
              { th with pc := if z0 && z1 then .wFree old else .wHint old z0 z1 1 },
            .fetchAdd "generation" s.gen)
    | .wHint old z0 z1 iter =>
      -- `update_seen` short-circuits: a slot already seen idle is not loaded again
      some (setT s { th with pc := if !z0 then .wLoop0 old z0 z1 iter else .wLoop1 old z0 z1 iter },
            if iter % yieldEvery == 0 then .yield else .spin)
    | .wLoop0 old _ z1 iter =>
      let z0' := s.lock0 == 0
      some (setT s { th with pc := if !z1 then .wLoop1 old z0' z1 iter else afterLoop old z0' z1 iter },
            .load "lock0" s.lock0)
    | .wLoop1 old z0 _ iter =>
      let z1' := s.lock1 == 0
      some (setT s { th with pc := afterLoop old z0 z1' iter }, .load "lock1" s.lock1)
    | .wFree old =>
      -- the box is released; if the value's destructor panics, the guard is dropped while unwinding
      some (setT { s with live := s.live.erase old, freed := (old, t) :: s.freed }
              { th with pc := .wUnlock (s.bombs.contains old) },
            .free old)
    | .wUnlock panicking =>
      some (setT { s with mutexOwner := none, poisoned := s.poisoned || panicking } { th with pc := .idle },
            .mutexUnlock panicking)

/-- reachability by any schedule -/
inductive Reachable (yieldEvery : Nat) (scripts : List (List Cmd)) : Sys → Prop where
  | init : Reachable yieldEvery scripts (Sys.init scripts)
  | step {s s' : Sys} {t : Nat} {o : Obs} :
      Reachable yieldEvery scripts s → step yieldEvery s t = some (s', o) → Reachable yieldEvery scripts s'

/-- run a schedule (list of thread ids); stops at the first step that is not enabled -/
def runSchedule (yieldEvery : Nat) : Sys → List Nat → Sys × List (Nat × Obs)
  | s, [] => (s, [])
  | s, t :: rest =>
    match step yieldEvery s t with
    | none => (s, [])
    | some (s', o) =>
      let r := runSchedule yieldEvery s' rest
      (r.1, (t, o) :: r.2)

end SigHook.HalfLock
