/-
L9 — the self-pipe wake of `src/low_level/pipe.rs`: `register_raw` (kind detection by a
zero-length `send`, `O_NONBLOCK` on the write path), `wake` (one `write` or one
`send(MSG_DONTWAIT)`, result ignored), `WakeFd::drop` (close) over a small descriptor model.
Kernel behaviour (validated on every run by the probes): a zero-length `send(MSG_DONTWAIT)`
returns 0 on a stream socket (also when full) and on a datagram socket with room, `EAGAIN` on a
full datagram socket, `ENOTSOCK` on a pipe; a one-byte `write`/`send` succeeds iff there is room,
else `EAGAIN` when non-blocking — and BLOCKS when neither `O_NONBLOCK` nor `MSG_DONTWAIT`.
-/
namespace SigHook.Pipe

/-- `other` = a descriptor that is not a socket and refuses `F_SETFL` (e.g. an `O_PATH` descriptor) -/
inductive Kind where | pipe | stream | dgram | other
deriving DecidableEq, Repr

structure Fd where
  kind : Kind
  nonblock : Bool
  fill : Nat
  cap : Nat
  closes : Nat := 0
  /-- zero-length datagrams queued (the library's probe on a datagram socket with room leaves one):
      they take a place in the queue, make the socket readable, and carry no byte -/
  empties : Nat := 0
deriving Repr

inductive Method where | send | write
deriving DecidableEq, Repr

/-- result of the zero-length probe -/
inductive Probe where | zero | eagain | other
deriving DecidableEq, Repr

def probe (fd : Fd) : Probe :=
  match fd.kind with
  | .pipe => .other
  | .stream => .zero
  | .dgram => if fd.fill + fd.empties < fd.cap then .zero else .eagain
  | .other => .other

/-- `register_raw` up to the registration itself: the chosen method and the descriptor's flags -/
def classify (fd : Fd) : Method × Fd :=
  match probe fd with
  | .zero => (.send, if fd.kind == .dgram then { fd with empties := fd.empties + 1 } else fd)
  | .eagain => (.send, fd)
  | .other => (.write, { fd with nonblock := true })

/-- `set_flags` (`F_GETFL` + `F_SETFL(O_NONBLOCK)`) succeeds on pipes (and would on sockets) -/
def setFlagsOk (fd : Fd) : Bool := fd.kind != .other

/-- `register_raw` up to the registration: `none` = rejected with the OS error of `set_flags`; the
descriptor is then closed by the drop of the `WakeFd` that already owns it -/
def prepare (fd : Fd) : Option (Method × Fd) × Fd :=
  match probe fd with
  | .zero | .eagain => (some (classify fd), (classify fd).2)
  | .other => if setFlagsOk fd then (some (.write, { fd with nonblock := true }), { fd with nonblock := true })
              else (none, { fd with closes := fd.closes + 1 })

inductive WakeRes where
  | wrote
  | eagain
  /-- the call would not return until somebody reads: never acceptable in a signal handler -/
  | blocks
deriving DecidableEq, Repr

/-- one `wake`: exactly one attempt to put one byte -/
def wake (m : Method) (fd : Fd) : Fd × WakeRes :=
  if fd.fill + fd.empties < fd.cap then ({ fd with fill := fd.fill + 1 }, .wrote)
  else
    match m with
    | .send => (fd, .eagain)                       -- MSG_DONTWAIT
    | .write => (fd, if fd.nonblock then .eagain else .blocks)

/-- a burst of `n` deliveries -/
def burst (m : Method) : Fd → Nat → Fd × List WakeRes
  | fd, 0 => (fd, [])
  | fd, n + 1 =>
    let r := wake m fd
    let rest := burst m r.1 n
    (rest.1, r.2 :: rest.2)

/-- the reader drains everything -/
def drain (fd : Fd) : Fd × Nat := ({ fd with fill := 0, empties := 0 }, fd.fill)

/-- `WakeFd::drop` -/
def close (fd : Fd) : Fd := { fd with closes := fd.closes + 1 }

end SigHook.Pipe
