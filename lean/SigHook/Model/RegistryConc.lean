import SigHook.Model.RegistrySeq
import SigHook.Model.HalfLock
/-
L6 — the concurrent registry: the operations of L5 split into their shared-memory steps over two
half-lock instances (`data : HalfLock<SignalData>`, `race_fallback : HalfLock<Option<Prev>>`),
the writer mutexes, and a kernel disposition table. Threads are mutators (register / unregister /
unregister_signal) and deliveries (the dispatcher `handler`), each running a finite script.

Every L6 step is exactly one event the shim / harness can observe: one half-lock operation
(performed by the embedded L3 machines `hd`, `hf`), one `sigaction` call, one call of the chained
previous handler, one action invocation, or a `call` marker. `ret` markers are attached to the
last step of an operation.

Anchors: `register_unchecked_impl` lib.rs:577-623, `unregister` :642-654, `unregister_signal`
:664-679, `handler` :352-388.
-/
namespace SigHook.RegConc
open SigHook.Registry (Disp Slot Env lookup update btInsert btRemove prevCalled)

/-- payload of the `data` half-lock -/
structure SigData where
  signals : List (Int × Slot)
  nextId : Nat
deriving Repr

def SigData.empty : SigData := { signals := [], nextId := 1 }

inductive Op where
  | register (checked : Bool) (sig : Int) (tag : Nat)
  | unregister (sig : Int) (id : Nat)
  | unregisterSignal (sig : Int)
  | deliver (sig : Int)
deriving Repr

/-- result of an operation -/
inductive Ret where
  | id (sig : Int) (id : Nat)
  | err
  | panic
  | bug
  | bool (b : Bool)
  | delivered
  | notOurs (d : Disp)
deriving DecidableEq, Repr

inductive Pc where
  | idle
  -- a delivery of `sig`
  | dFb (sig : Int)
  | dData (sig : Int)
  | dPlan (sig : Int) (prev : Option Disp) (tags : List Nat)
  | dRelF (sig : Int)
  -- a mutator
  | mLockD (op : Op)
  | mLoadD (op : Op)
  /-- `data.store(new)` in progress; `reg` = this registration must still record its contents at
      the allocation step -/
  | mRunD (new : Option SigData) (res : Ret)
  /-- unlock `data`'s writer mutex and return; `drops` = the not-registered action released on the
      way out -/
  | mUnlockD (res : Ret) (drops : List Nat)
  /- first registration of `sig` (action `tag`, its id is in `res`) -/
  | mLockF (sig : Int) (tag : Nat) (new : SigData) (res : Ret)
  | mLoadF (sig : Int) (tag : Nat) (new : SigData) (res : Ret)
  | mQuery (sig : Int) (tag : Nat) (new : SigData) (res : Ret)
  | mRunF (sig : Int) (tag : Nat) (fb : Option (Option (Int × Disp))) (new : SigData) (res : Ret)
  | mUnlockF (res : Ret) (drops : List Nat)
  | mSet (sig : Int) (tag : Nat) (new : SigData) (res : Ret)
deriving Repr

structure Thread where
  script : List Op
  pc : Pc
deriving Repr

structure Sys where
  hd : HalfLock.Sys
  hf : HalfLock.Sys
  /-- contents of every `data` snapshot ever allocated -/
  cd : List (Nat × SigData)
  /-- contents of every `race_fallback` snapshot ever allocated -/
  cf : List (Nat × Option (Int × Disp))
  /-- kernel disposition table -/
  disp : List (Int × Disp)
  nextAlloc : Nat
  threads : List Thread
deriving Repr

def lookupN {β} (k : Nat) : List (Nat × β) → Option β
  | [] => none
  | (k', v) :: rest => if k' = k then some v else lookupN k rest

def idleThreads (n : Nat) : List HalfLock.Thread := List.replicate n { script := [], pc := .idle }

/-- `data` starts as allocation 0, `race_fallback` as allocation 1 (order in `GlobalData::ensure`) -/
def Sys.init (disp : List (Int × Disp)) (scripts : List (List Op)) : Sys :=
  let n := scripts.length
  { hd := { data := 0, gen := 0, lock0 := 0, lock1 := 0, mutexOwner := none, poisoned := false, bombs := [],
            nextSnap := 2, live := [0], freed := [], threads := idleThreads n }
    hf := { data := 1, gen := 0, lock0 := 0, lock1 := 0, mutexOwner := none, poisoned := false, bombs := [],
            nextSnap := 2, live := [1], freed := [], threads := idleThreads n }
    cd := [(0, SigData.empty)], cf := [(1, none)], disp := disp, nextAlloc := 2,
    threads := scripts.map (fun s => { script := s, pc := .idle }) }

/-- what one step shows to an observer -/
inductive Ev where
  | call (op : Op)
  | hd (o : HalfLock.Obs)
  | hf (o : HalfLock.Obs)
  | sigaction (sig : Int) (set : Bool) (ok : Bool)
  | prev (d : Disp)
  | run (tag : Nat)
deriving Repr

structure StepOut where
  ev : Ev
  /-- actions whose last reference was released by this step (sorted) -/
  dropped : List Nat := []
  ret : Option Ret := none
deriving Repr

/-- give the (idle) L3 thread `t` the command `c` and perform its first step -/
def hlBegin (ye : Nat) (h : HalfLock.Sys) (t : Nat) (c : HalfLock.Cmd) : Option (HalfLock.Sys × HalfLock.Obs) :=
  match h.threads[t]? with
  | some th => HalfLock.step ye { h with threads := h.threads.set t { th with script := [c] } } t
  | none => none

def hlPc (h : HalfLock.Sys) (t : Nat) : HalfLock.Pc :=
  match h.threads[t]? with
  | some th => th.pc
  | none => .idle

def tagsOfData (d : SigData) : List Nat := d.signals.flatMap (fun e => e.2.actions.map (·.2))

/-- action tags released when snapshot `old` of `data` is freed: those not referenced by any
other live snapshot -/
def droppedAt (s : Sys) (old : Nat) : List Nat :=
  let others := (s.hd.live.filter (· != old)).flatMap (fun i => ((lookupN i s.cd).map tagsOfData).getD [])
  let mine := ((lookupN old s.cd).map tagsOfData).getD []
  (mine.filter (fun t => !others.contains t)).mergeSort (· ≤ ·)

/-- what a step of a `data` store releases -/
def dropsOf (s : Sys) : HalfLock.Obs → List Nat
  | .free old => droppedAt s old
  | _ => []

def insertSorted (tag : Nat) : List Nat → List Nat
  | [] => [tag]
  | x :: xs => if tag ≤ x then tag :: x :: xs else x :: insertSorted tag xs

/-- the copy-modify part of a mutator, computed right after `data.load()` under the writer
mutex: `none` = nothing to publish (with the result), `some (new, res, first)` = publish `new`;
`first` = the signal has no slot yet, so the fallback / sigaction sequence comes first. -/
def plan (env : Env) (cur : SigData) : Op → (Option SigData × Ret × Bool)
  | .register _ sig tag =>
    let id := cur.nextId
    match lookup sig cur.signals with
    | some slot =>
      let r := btInsert id tag slot.actions
      if r.2 then (none, .bug, false)
      else (some { signals := update sig { slot with actions := r.1 } cur.signals, nextId := id + 1 },
            .id sig id, false)
    | none =>
      -- the slot's `prev` is filled in at the `sigaction` step
      (some { signals := cur.signals, nextId := id + 1 }, .id sig id, true)
  | .unregister sig id =>
    match lookup sig cur.signals with
    | some slot =>
      let r := btRemove id slot.actions
      if r.2 then (some { cur with signals := update sig { slot with actions := r.1 } cur.signals }, .bool true, false)
      else (none, .bool false, false)
    | none => (none, .bool false, false)
  | .unregisterSignal sig =>
    match lookup sig cur.signals with
    | some slot =>
      if slot.actions.isEmpty then (none, .bool false, false)
      else (some { cur with signals := update sig { slot with actions := [] } cur.signals }, .bool true, false)
    | none => (none, .bool false, false)
  | .deliver _ => (none, .delivered, false)

def dispOf (s : Sys) (sig : Int) : Disp := (lookup sig s.disp).getD .dfl

/-- whether a mutator will call `data.store` (decided from what is current when it takes the
writer mutex: nobody else can publish while it holds it) -/
def willStore (env : Env) (c : SigData) (op : Op) : Bool :=
  match plan env c op with
  | (none, _, _) => false
  | (some _, _, false) => true
  | (some _, _, true) =>
    match op with
    | .register _ sig _ => !(env.rejectsQuery sig) && !(env.rejectsSet sig)
    | _ => true

/-- the thread has a snapshot pinned -/
def isHold : HalfLock.Pc → Bool
  | .rUse .. => true
  | _ => false

def Ret.idOr0 : Ret → Nat
  | .id _ i => i
  | _ => 0

/-- bookkeeping of a `store`: the allocation step records the contents of the new snapshot -/
def recordAlloc {β} (o : HalfLock.Obs) (pending : Option β) (c : List (Nat × β)) (na : Nat) :
    List (Nat × β) × Nat × Option β :=
  match o, pending with
  | .alloc n, some v => ((n, v) :: c, na + 1, none)
  | _, _ => (c, na, pending)

def setT (s : Sys) (t : Nat) (th : Thread) : Sys := { s with threads := s.threads.set t th }

/-- what the dispatcher will do with the two pinned snapshots -/
def dispatchPlan (s : Sys) (t : Nat) (sig : Int) : Option Disp × List Nat :=
  let dp := match hlPc s.hd t with
    | .rUse _ p _ => (lookupN p s.cd).getD SigData.empty
    | _ => SigData.empty
  let fp := match hlPc s.hf t with
    | .rUse _ p _ => (lookupN p s.cf).getD none
    | _ => none
  match lookup sig dp.signals with
  | some slot => (prevCalled slot.prev, slot.actions.map (·.2))
  | none =>
    match fp with
    | some (fsig, prev) => if fsig = sig then (prevCalled prev, []) else (none, [])
    | none => (none, [])

/-- One step of thread `t`. -/
def step (env : Env) (ye : Nat) (s : Sys) (t : Nat) : Option (Sys × StepOut) :=
  match s.threads[t]? with
  | none => none
  | some th =>
    match th.pc with
    | .idle =>
      match th.script with
      | [] => none
      | op :: rest =>
        match op with
        | .deliver sig =>
          match dispOf s sig with
          | .lib _ => some (setT s t { script := rest, pc := .dFb sig }, { ev := .call op })
          | d => some (setT s t { script := rest, pc := .idle }, { ev := .call op, ret := some (.notOurs d) })
        | .register checked sig tag =>
          if checked && env.forbidden.contains sig then
            some (setT s t { script := rest, pc := .idle }, { ev := .call op, dropped := [tag], ret := some .panic })
          else some (setT s t { script := rest, pc := .mLockD op }, { ev := .call op })
        | _ => some (setT s t { script := rest, pc := .mLockD op }, { ev := .call op })
    -- ---------------------------------------------------------------- delivery
    | .dFb sig =>
      let r := if hlPc s.hf t == .idle then hlBegin ye s.hf t (.read 0) else HalfLock.step ye s.hf t
      match r with
      | none => none
      | some (hf', o) =>
        let s' := { s with hf := hf' }
        some (setT s' t { th with pc := if isHold (hlPc hf' t) then .dData sig else .dFb sig }, { ev := .hf o })
    | .dData sig =>
      let r := if hlPc s.hd t == .idle then hlBegin ye s.hd t (.read 0) else HalfLock.step ye s.hd t
      match r with
      | none => none
      | some (hd', o) =>
        let s' := { s with hd := hd' }
        if isHold (hlPc hd' t) then
          let p := dispatchPlan s' t sig
          some (setT s' t { th with pc := .dPlan sig p.1 p.2 }, { ev := .hd o })
        else some (setT s' t { th with pc := .dData sig }, { ev := .hd o })
    | .dPlan sig (some d) tags =>
      some (setT s t { th with pc := .dPlan sig none tags }, { ev := .prev d })
    | .dPlan sig none (tag :: rest) =>
      some (setT s t { th with pc := .dPlan sig none rest }, { ev := .run tag })
    | .dPlan sig none [] =>
      -- `sigdata` guard dropped first
      match HalfLock.step ye s.hd t with
      | none => none
      | some (hd', o) => some (setT { s with hd := hd' } t { th with pc := .dRelF sig }, { ev := .hd o })
    | .dRelF _ =>
      match HalfLock.step ye s.hf t with
      | none => none
      | some (hf', o) =>
        some (setT { s with hf := hf' } t { th with pc := .idle }, { ev := .hf o, ret := some .delivered })
    -- ---------------------------------------------------------------- mutator
    | .mLockD op =>
      -- whether `store` will be called is decided by what is current now: nobody else can publish
      -- while this thread holds the writer mutex
      let cur := (lookupN s.hd.data s.cd).getD SigData.empty
      match hlBegin ye s.hd t (.write (willStore env cur op) false) with
      | none => none
      | some (hd', o) => some (setT { s with hd := hd' } t { th with pc := .mLoadD op }, { ev := .hd o })
    | .mLoadD op =>
      match HalfLock.step ye s.hd t with
      | none => none
      | some (hd', o) =>
        let s' := { s with hd := hd' }
        let cur := (lookupN s.hd.data s.cd).getD SigData.empty
        match plan env cur op with
        | (none, res, _) => some (setT s' t { th with pc := .mUnlockD res [] }, { ev := .hd o })
        | (some new, res, false) => some (setT s' t { th with pc := .mRunD (some new) res }, { ev := .hd o })
        | (some new, res, true) =>
          match op with
          | .register _ sig tag => some (setT s' t { th with pc := .mLockF sig tag new res }, { ev := .hd o })
          | _ => some (setT s' t { th with pc := .mUnlockD .bug [] }, { ev := .hd o })
    | .mLockF sig tag new res =>
      match hlBegin ye s.hf t (.write (!(env.rejectsQuery sig)) false) with
      | none => none
      | some (hf', o) => some (setT { s with hf := hf' } t { th with pc := .mLoadF sig tag new res }, { ev := .hf o })
    | .mLoadF sig tag new res =>
      match HalfLock.step ye s.hf t with
      | none => none
      | some (hf', o) => some (setT { s with hf := hf' } t { th with pc := .mQuery sig tag new res }, { ev := .hf o })
    | .mQuery sig tag new res =>
      -- Prev::detect(signal)?
      if env.rejectsQuery sig then
        some (setT s t { th with pc := .mUnlockF .err [tag] }, { ev := .sigaction sig false false })
      else
        some (setT s t { th with pc := .mRunF sig tag (some (some (sig, dispOf s sig))) new res },
              { ev := .sigaction sig false true })
    | .mRunF sig tag fb new res =>
      -- race_fallback.store(Some(prev)), one half-lock operation per step
      let hf0 := { s.hf with nextSnap := s.nextAlloc }
      match HalfLock.step ye hf0 t with
      | none => none
      | some (hf', o) =>
        let r := recordAlloc o fb s.cf s.nextAlloc
        let s' := { s with hf := hf', cf := r.1, nextAlloc := r.2.1 }
        if hlPc hf' t == .idle then
          some (setT s' t { th with pc := .mSet sig tag new res }, { ev := .hf o })
        else some (setT s' t { th with pc := .mRunF sig tag r.2.2 new res }, { ev := .hf o })
    | .mUnlockF res drops =>
      match HalfLock.step ye s.hf t with
      | none => none
      | some (hf', o) => some (setT { s with hf := hf' } t { th with pc := .mUnlockD res drops }, { ev := .hf o })
    | .mSet sig tag new res =>
      -- Slot::new(signal)?
      if env.rejectsSet sig then
        some (setT s t { th with pc := .mUnlockD .err [tag] }, { ev := .sigaction sig true false })
      else
        let prev := dispOf s sig
        let new' : SigData :=
          { new with signals := update sig { prev := prev, actions := [(res.idOr0, tag)] } new.signals }
        some (setT { s with disp := update sig (.lib env.libFlags) s.disp } t
                { th with pc := .mRunD (some new') res }, { ev := .sigaction sig true true })
    | .mRunD new res =>
      let hd0 := { s.hd with nextSnap := s.nextAlloc }
      match HalfLock.step ye hd0 t with
      | none => none
      | some (hd', o) =>
        let r := recordAlloc o new s.cd s.nextAlloc
        let dropped := dropsOf s o
        let s' := { s with hd := hd', cd := r.1, nextAlloc := r.2.1 }
        if hlPc hd' t == .idle then
          some (setT s' t { th with pc := .idle }, { ev := .hd o, dropped := dropped, ret := some res })
        else some (setT s' t { th with pc := .mRunD r.2.2 res }, { ev := .hd o, dropped := dropped })
    | .mUnlockD res drops =>
      match HalfLock.step ye s.hd t with
      | none => none
      | some (hd', o) =>
        some (setT { s with hd := hd' } t { th with pc := .idle }, { ev := .hd o, dropped := drops, ret := some res })

end SigHook.RegConc
