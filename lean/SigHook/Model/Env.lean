/-!
Environment tables: assumptions about Linux / glibc, validated on every run against the running
kernel by the harness's real-kernel probes (they are hypotheses of the theorems, not proved).
-/
namespace SigHook.Gen

/-- `sigaction(n, NULL, &old)` fails with EINVAL: out of range, or glibc's reserved
real-time signals 32 and 33. -/
def osRejectsQuery (n : Int) : Bool := n < 1 || n > 64 || n == 32 || n == 33

/-- `sigaction(n, &new, &old)` fails: as above, plus SIGKILL (9) and SIGSTOP (19). -/
def osRejectsSet (n : Int) : Bool := osRejectsQuery n || n == 9 || n == 19

end SigHook.Gen
