import SigHook.Gen.Cause
/-!
L12 — `Origin::extract` (src/low_level/siginfo.rs:240-260) over the generated tables:
`sighook_signal_cause` (extract.c), `ICause::has_process`, `From<ICause> for Cause`.
-/
namespace SigHook.Origin
open SigHook.Gen

/-- `sighook_signal_cause`: first row whose native code matches and whose signal is -1 or the
delivered one; 0 ("Unknown") otherwise. -/
def causeCode (rows : List (Int × Int × Nat)) (signo code : Int) : Nat :=
  match rows.find? (fun r => r.1 == code && (r.2.1 == -1 || r.2.1 == signo)) with
  | some r => r.2.2
  | none => 0

def lookupNat {β} (k : Nat) : List (Nat × β) → Option β
  | [] => none
  | (k', v) :: rest => if k' = k then some v else lookupNat k rest

/-- `ICause::has_process` (a discriminant outside the enum cannot occur: `tables_in_sync`) -/
def hasProcess (tbl : List (Nat × Bool)) (c : Nat) : Bool := (lookupNat c tbl).getD false

/-- `From<ICause> for Cause` -/
def toCause (tbl : List (Nat × Cause)) (dflt : Cause) (c : Nat) : Cause := (lookupNat c tbl).getD dflt

structure SigInfo where
  signo : Int
  code : Int
  /-- the bytes at the `si_pid` / `si_uid` offsets, whatever they mean for this `si_code` -/
  pidField : Int
  uidField : Int
deriving Repr

structure Origin where
  signal : Int
  process : Option (Int × Int)
  cause : Cause
deriving DecidableEq, Repr

/-- `Origin::extract` (non-macOS) -/
def extract (info : SigInfo) : Origin :=
  let c := causeCode Gen.causeRows info.signo info.code
  { signal := info.signo
    process := if hasProcess Gen.hasProcessTable c then some (info.pidField, info.uidField) else none
    cause := toCause Gen.toCauseTable Gen.toCauseDefault c }

end SigHook.Origin
