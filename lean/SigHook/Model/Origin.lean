import SigHook.Gen.Cause
import SigHook.Gen.Platform
/-!
L12 — `Origin::extract` (src/low_level/siginfo.rs:240-260) over the generated tables:
`sighook_signal_cause` (extract.c), `ICause::has_process`, `From<ICause> for Cause`.
-/
namespace SigHook.Origin
open SigHook.Gen

/-- `sighook_signal_cause`: first row whose native code matches and whose signal is -1 or the
delivered one; 0 ("Unknown") otherwise. -/
def causeCode (rows : List (Int × Int × Nat)) (signo code : Int) : Nat :=
  match rows.find? (fun r => r.1 == code && (r.2.1 == -1 || r.2.1 == signo)) with
  | some r => r.2.2
  | none => 0

def lookupNat {β} (k : Nat) : List (Nat × β) → Option β
  | [] => none
  | (k', v) :: rest => if k' = k then some v else lookupNat k rest

/-- `ICause::has_process` (a discriminant outside the enum cannot occur: `tables_in_sync`) -/
def hasProcess (tbl : List (Nat × Bool)) (c : Nat) : Bool := (lookupNat c tbl).getD false

/-- `From<ICause> for Cause` -/
def toCause (tbl : List (Nat × Cause)) (dflt : Cause) (c : Nat) : Cause := (lookupNat c tbl).getD dflt

structure SigInfo where
  signo : Int
  code : Int
  /-- the bytes at the `si_pid` / `si_uid` offsets, whatever they mean for this `si_code` -/
  pidField : Int
  uidField : Int
deriving Repr

structure Origin where
  signal : Int
  process : Option (Int × Int)
  cause : Cause
deriving DecidableEq, Repr

/-- `Origin::extract` (non-macOS) -/
def extract (info : SigInfo) : Origin :=
  let c := causeCode Gen.causeRows info.signo info.code
  { signal := info.signo
    process := if hasProcess Gen.hasProcessTable c then some (info.pidField, info.uidField) else none
    cause := toCause Gen.toCauseTable Gen.toCauseDefault c }

/-! ## The kernel's contract (environment; validated by real deliveries in the harness) -/

/-- which `(signo, si_code)` carry valid `si_pid` / `si_uid` on Linux -/
def kernelFills (signo code : Int) : Bool :=
  code == Gen.SI_USER || code == Gen.SI_TKILL || code == Gen.SI_QUEUE || code == Gen.SI_MESGQ ||
  (signo == Gen.SIGCHLD &&
    (code == Gen.CLD_EXITED || code == Gen.CLD_KILLED || code == Gen.CLD_DUMPED ||
     code == Gen.CLD_TRAPPED || code == Gen.CLD_STOPPED || code == Gen.CLD_CONTINUED))

/-- the intended classification -/
def specCause (signo code : Int) : Cause :=
  if code = Gen.SI_KERNEL then .kernel
  else if code = Gen.SI_USER then .sentUser
  else if code = Gen.SI_TKILL then .sentTKill
  else if code = Gen.SI_QUEUE then .sentQueue
  else if code = Gen.SI_MESGQ then .sentMesgQ
  else if signo = Gen.SIGCHLD then
    if code = Gen.CLD_EXITED then .chldExited
    else if code = Gen.CLD_KILLED then .chldKilled
    else if code = Gen.CLD_DUMPED then .chldDumped
    else if code = Gen.CLD_TRAPPED then .chldTrapped
    else if code = Gen.CLD_STOPPED then .chldStopped
    else if code = Gen.CLD_CONTINUED then .chldContinued
    else .unknown
  else .unknown

/-- what the property demands of `extract info` (the monitor the harness applies to the real code) -/
def specOrigin (info : SigInfo) : Origin :=
  { signal := info.signo
    process := if kernelFills info.signo info.code then some (info.pidField, info.uidField) else none
    cause := specCause info.signo info.code }

end SigHook.Origin
