import SigHook.Model.Skel
/-
L8s — `Pending::next` (src/iterator/backend.rs): the scan over the per-signal slots of an
exfiltrator whose slots can hold several records (`WithRawSiginfo` / `WithOrigin`: one channel per
signal). `load` pops one record of the slot at `position`; the scan stays on a slot as long as it
yields and moves on only when the slot answers `None`.

The state is the slot array split at `position` (`done.length = position`): the slots already
passed and the slots from `position` on, each with the records queued in it, oldest first.

`staysOnHit` is the shape of the loop as regenerated from the source (`Gen.skeleton`): the position
is advanced only in the `else` branch of `if result.is_some() { return result }`.
-/
namespace SigHook.Scan

/-- the shape of the loop: over every slot from `position` to the end of the table (`bound.slots`: no other
bound, no `break`); body: `load`, `return` on a hit, `else` advance -/
def staysOnHit : Bool := skelOf backendFile "next" == ["bound.slots", "load", "return", "else", "advance"]

structure St where
  done : List (List Nat)
  rest : List (List Nat)
deriving Repr, DecidableEq

def St.position (s : St) : Nat := s.done.length

/-- one call of `next()`; `stays = false` is the shape that advances unconditionally -/
def next (stays : Bool) : List (List Nat) → List (List Nat) → Option Nat × St
  | done, [] => (none, { done := done, rest := [] })
  | done, [] :: tl => next stays (done ++ [[]]) tl
  | done, (r :: q) :: tl =>
    (some r, if stays then { done := done, rest := q :: tl } else { done := done ++ [q], rest := tl })

/-- drain the iterator: call `next()` until it answers `None` (`fuel` bounds the number of calls) -/
def drain (stays : Bool) : Nat → St → List Nat × St
  | 0, s => ([], s)
  | fuel + 1, s =>
    match next stays s.done s.rest with
    | (some r, s') => let d := drain stays fuel s'; (r :: d.1, d.2)
    | (none, s') => ([], s')

/-- records queued from `position` on -/
def queued (s : St) : List Nat := s.rest.flatten

end SigHook.Scan
