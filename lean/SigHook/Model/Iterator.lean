import SigHook.Gen.Consts
/-
L8 — the signal iterator back end (src/iterator/backend.rs, exfiltrator `SignalOnly`) as a step
machine: deliveries of watched signals (`store` into the slot, THEN wake the self-pipe), `close()`
(`store closed`, THEN wake), and one consumer running a script of `pending` / `wait` / `poll`
(non-blocking readiness callback, as the async adapters use it) / `forever` (blocking callback).
One shared-memory operation or system call per step. Sequential consistency: `closed` and the
slots are accessed with `SeqCst` (the failure ordering of the slot's compare-exchange is Relaxed,
which only concerns the value it reports on failure).

The self-pipe is a byte counter with capacity `cap` (a wake on a full pipe is lost — EAGAIN —
which is fine because a byte is already there).

Anchors: action `backend.rs:139-144`; `close` :219-222; `flush` :303-324; `pending` :335-338;
`poll_pending` :349-362; `Pending::next` :394-407; `poll_signal` :451-473; `wait`/`Forever::next`
`iterator/mod.rs`.
-/
namespace SigHook.Iter
open SigHook

inductive Cmd where
  /-- a delivery of a watched signal (the instance's action) -/
  | deliver (sig : Nat)
  | close
  /-- consumer: `pending()` and drain the iterator it returns -/
  | pending
  /-- consumer: `wait()` and drain -/
  | wait
  /-- consumer: one `poll_signal` with a non-blocking readiness callback -/
  | poll
  /-- consumer: `forever()` until it ends -/
  | forever
deriving DecidableEq, Repr

/-- which consumer front-end a sub-step belongs to -/
inductive Mode where
  | pending | wait | poll | forever
deriving DecidableEq, Repr

inductive Pc where
  | idle
  /-- delivery: the wake after the store -/
  | dWake (sig : Nat)
  | cWake
  /-- `flush()`: next `recv`; `again` = a previous recv returned data, so another one follows -/
  | flush (m : Mode)
  /-- draining a fresh `Pending` (modes pending / wait): next compare-exchange at `pos` -/
  | scan (m : Mode) (pos : Nat)
  /-- `poll_signal`: the loop's `is_closed()` -/
  | psClosed (m : Mode)
  /-- `poll_signal`: `self.iter.next()` at the iterator's position -/
  | psNext (m : Mode)
  /-- `poll_pending`: its own `is_closed()` -/
  | ppClosed (m : Mode)
  /-- `poll_pending`: the readiness callback -/
  | ppCallback (m : Mode)
  /-- `poll_signal` after a `None` of `poll_pending`: the second `is_closed()` (fixed code only) -/
  | psRecheck (m : Mode)
deriving DecidableEq, Repr

structure Thread where
  script : List Cmd
  pc : Pc
  /-- position of this consumer's `SignalIterator`'s current `Pending` (modes poll / forever) -/
  iterPos : Nat := 0
  /-- the last answer of the readiness callback in the current `poll_signal`/`wait` call, if it
      was consulted at all (ghost, for C11) -/
  consulted : Option Bool := none
deriving Repr

structure Sys where
  watched : List Nat
  /-- signal numbers whose slot is `true` -/
  set : List Nat
  pipe : Nat
  cap : Nat
  closed : Bool
  threads : List Thread
  -- ghost state for the property statements
  /-- deliveries whose `store` has happened, not yet yielded: (sig, wake completed?) -/
  unreported : List (Nat × Bool)
  /-- every `store` into a slot so far / every yield so far (ghost, for C10) -/
  stores : List Nat
  yields : List Nat
deriving Repr

def Sys.init (watched : List Nat) (cap pipe : Nat) (scripts : List (List Cmd)) : Sys :=
  { watched := watched, set := [], pipe := pipe, cap := cap, closed := false,
    threads := scripts.map (fun s => { script := s, pc := .idle }), unreported := [], stores := [], yields := [] }

inductive Obs where
  | storeSlot (sig : Nat)
  | storeClosed
  | wake (ok : Bool)
  | loadClosed (v : Bool)
  | recv (n : Int)
  | cas (pos : Nat) (ok : Bool)
  /-- the readiness callback was consulted and answered -/
  | callback (blocking : Bool) (answer : Bool)
deriving DecidableEq, Repr

inductive Ret where
  | done
  | pollSignal (sig : Nat)
  | pollPending
  | pollClosed
deriving DecidableEq, Repr

structure Out where
  obs : Obs
  yielded : Option Nat := none
  ret : Option Ret := none
deriving Repr

def maxSig : Nat := Gen.MAX_SIGNUM

def setT (s : Sys) (t : Nat) (th : Thread) : Sys := { s with threads := s.threads.set t th }

def blocking : Mode → Bool
  | .poll => false
  | _ => true

/-- One step of thread `t`; `none` = finished or not enabled (blocking read on an empty pipe).
`recheck` = `poll_signal` re-reads `is_closed()` before answering `Pending` (the code after the
`fix:` commit; generated as `Gen.pollRechecksClosed`). -/
def step (recheck : Bool) (s : Sys) (t : Nat) : Option (Sys × Out) :=
  match s.threads[t]? with
  | none => none
  | some th =>
    match th.pc with
    | .idle =>
      match th.script with
      | [] => none
      | .deliver sig :: rest =>
        -- exfiltrator.store(slot): slot.store(true, SeqCst)
        some (setT { s with set := if s.set.contains sig then s.set else sig :: s.set,
                            unreported := (sig, false) :: s.unreported, stores := sig :: s.stores } t
                { th with script := rest, pc := .dWake sig }, { obs := .storeSlot sig })
      | .close :: rest =>
        some (setT { s with closed := true } t { th with script := rest, pc := .cWake }, { obs := .storeClosed })
      | .pending :: rest => stepFlush s t { th with script := rest } .pending
      | .wait :: rest =>
        -- poll_pending: is_closed()
        some (setT s t { th with script := rest, consulted := none, pc := if s.closed then .flush .wait else .ppCallback .wait },
              { obs := .loadClosed s.closed })
      | .poll :: rest => stepPsClosed s t { th with script := rest, consulted := none } .poll
      | .forever :: rest => stepPsClosed s t { th with script := rest, consulted := none } .forever
    | .dWake sig =>
      let ok := s.pipe < s.cap
      some (setT { s with pipe := if ok then s.pipe + 1 else s.pipe,
                          unreported := s.unreported.map (fun e => if e.1 == sig then (e.1, true) else e) } t
              { th with pc := .idle }, { obs := .wake ok, ret := some .done })
    | .cWake =>
      let ok := s.pipe < s.cap
      some (setT { s with pipe := if ok then s.pipe + 1 else s.pipe } t { th with pc := .idle },
            { obs := .wake ok, ret := some .done })
    | .flush m => stepFlush s t th m
    | .scan m pos =>
      if pos < maxSig then
        if s.set.contains pos then
          -- compare_exchange(true, false) succeeds: the signal is yielded; the position stays
          some (setT { s with set := s.set.erase pos, unreported := s.unreported.filter (fun e => e.1 != pos),
                              yields := pos :: s.yields } t
                  { th with pc := .scan m pos }, { obs := .cas pos true, yielded := some pos })
        else
          let last := pos + 1 == maxSig
          some (setT s t { th with pc := if last then .idle else .scan m (pos + 1) },
                { obs := .cas pos false, ret := if last then some .done else none })
      else some (setT s t { th with pc := .idle }, { obs := .cas pos false, ret := some .done })
    | .psClosed m => stepPsClosed s t th m
    | .psNext m =>
      let pos := th.iterPos
      if s.set.contains pos then
        let s' := { s with set := s.set.erase pos, unreported := s.unreported.filter (fun e => e.1 != pos),
                           yields := pos :: s.yields }
        match m with
        | .forever => some (setT s' t { th with pc := .psClosed m }, { obs := .cas pos true, yielded := some pos })
        | _ => some (setT s' t { th with pc := .idle }, { obs := .cas pos true, yielded := some pos, ret := some (.pollSignal pos) })
      else
        let pos' := pos + 1
        -- exhausted: poll_pending
        some (setT s t { th with iterPos := pos', pc := if pos' < maxSig then .psNext m else .ppClosed m },
              { obs := .cas pos false })
    | .ppClosed m =>
      if s.closed then
        -- poll_pending returns Ok(None) without consulting the callback
        if recheck then some (setT s t { th with pc := .psRecheck m }, { obs := .loadClosed true })
        else
          -- (before the fix) poll_signal maps it to Pending
          match m with
          | .forever => some (setT s t { th with pc := .psClosed m }, { obs := .loadClosed true })
          | _ => some (setT s t { th with pc := .idle }, { obs := .loadClosed true, ret := some .pollPending })
      else some (setT s t { th with pc := .ppCallback m }, { obs := .loadClosed false })
    | .psRecheck m =>
      if s.closed then
        some (setT s t { th with pc := .idle }, { obs := .loadClosed true, ret := some .pollClosed })
      else
        match m with
        | .forever => some (setT s t { th with pc := .psClosed m }, { obs := .loadClosed false })
        | _ => some (setT s t { th with pc := .idle }, { obs := .loadClosed false, ret := some .pollPending })
    | .ppCallback m =>
      if blocking m then
        -- a blocking one-byte read: enabled only when a byte is there
        if s.pipe = 0 then none
        else some (setT { s with pipe := s.pipe - 1 } t { th with consulted := some true, pc := .flush m },
                   { obs := .callback true true })
      else if s.pipe = 0 then
        if recheck then
          some (setT s t { th with consulted := some false, pc := .psRecheck m }, { obs := .callback false false })
        else
          some (setT s t { th with consulted := some false, pc := .idle },
                { obs := .callback false false, ret := some .pollPending })
      else
        some (setT { s with pipe := s.pipe - 1 } t { th with consulted := some true, pc := .flush m },
              { obs := .callback false true })
where
  /-- one `recv(…, MSG_DONTWAIT)` of `flush()` -/
  stepFlush (s : Sys) (t : Nat) (th : Thread) (m : Mode) : Option (Sys × Out) :=
    if s.pipe > 0 then
      let n := min s.pipe 1024
      some (setT { s with pipe := s.pipe - n } t { th with pc := .flush m }, { obs := .recv n })
    else
      -- EAGAIN: the loop ends; a fresh `Pending` starts at position 0
      match m with
      | .pending | .wait => some (setT s t { th with pc := .scan m 0 }, { obs := .recv (-1) })
      | _ => some (setT s t { th with iterPos := 0, pc := .psClosed m }, { obs := .recv (-1) })
  /-- the `while !is_closed()` test of `poll_signal` -/
  stepPsClosed (s : Sys) (t : Nat) (th : Thread) (m : Mode) : Option (Sys × Out) :=
    if s.closed then
      some (setT s t { th with pc := .idle }, { obs := .loadClosed true, ret := some .pollClosed })
    else some (setT s t { th with pc := if th.iterPos < maxSig then .psNext m else .ppClosed m },
               { obs := .loadClosed false })

end SigHook.Iter
