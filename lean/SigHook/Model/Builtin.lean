/-
L7 — the flag actions of `src/flag.rs` (sequential; the actions of one signal run in registration
order — C02/C05): `register` (store true), `register_usize` (store value),
`register_conditional_shutdown` (if the condition is true: `_exit(status)` at once, no exit
hooks, remaining actions skipped). The application owns the flags and may write them between
deliveries.
-/
namespace SigHook.Builtin

inductive Action where
  | setTrue (f : Nat)
  | setUsize (f : Nat) (v : Nat)
  | condShutdown (status : Int) (f : Nat)
deriving DecidableEq, Repr

/-- flags: index → value (a bool flag holds 0/1) -/
abbrev Flags := List (Nat × Nat)

def getF : Flags → Nat → Nat
  | [], _ => 0
  | (k, v) :: rest, f => if k = f then v else getF rest f

/-- a write shadows older values -/
def setF (fl : Flags) (f : Nat) (v : Nat) : Flags := (f, v) :: fl

inductive Outcome where
  /-- the delivery returned -/
  | returned (fl : Flags)
  /-- the process ended inside the delivery: exit status as the parent sees it (status mod 256),
      whether exit-time hooks ran, and the flag values at that moment -/
  | exited (code : Nat) (hooksRan : Bool) (fl : Flags)
deriving Repr

/-- `exit(status)` as seen by `waitpid`: the low 8 bits -/
def exitCode (status : Int) : Nat := (status % 256).toNat

/-- one delivery: run the actions in order -/
def deliver : List Action → Flags → Outcome
  | [], fl => .returned fl
  | .setTrue f :: rest, fl => deliver rest (setF fl f 1)
  | .setUsize f v :: rest, fl => deliver rest (setF fl f v)
  | .condShutdown st f :: rest, fl =>
    if getF fl f != 0 then .exited (exitCode st) false fl else deliver rest fl

inductive Ev where
  /-- the application writes a flag -/
  | write (f : Nat) (v : Nat)
  | raise
deriving Repr

/-- a history of application writes and deliveries; stops at the first termination -/
def run (acts : List Action) : Flags → List Ev → Outcome
  | fl, [] => .returned fl
  | fl, .write f v :: rest => run acts (setF fl f v) rest
  | fl, .raise :: rest =>
    match deliver acts fl with
    | .returned fl' => run acts fl' rest
    | o => o

end SigHook.Builtin
