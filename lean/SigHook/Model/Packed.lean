import SigHook.Gen.Consts
/-
L0 — the packed index queues of `channel.rs:43-85`: `get`, `set`, one iteration of `enqueue`'s
search, one iteration of `dequeue`'s split, on `BitVec 16` exactly as in the source (`u16`).
`SLOTS`, `BITS`, `MASK` are the generated constants.
-/
namespace SigHook.Packed
open SigHook

abbrev Q := BitVec 16

def MASK : Q := BitVec.ofNat 16 Gen.MASK

/-- `fn get(n, idx) = (n >> (BITS * idx)) & MASK` -/
def get (n : Q) (idx : Nat) : Q := (n >>> (Gen.BITS * idx)) &&& MASK

/-- `fn set(n, idx, v)` -/
def set (n : Q) (idx : Nat) (v : Q) : Q :=
  let v' := v <<< (Gen.BITS * idx)
  let mask := MASK <<< (Gen.BITS * idx)
  (n &&& ~~~mask) ||| v'

/-- `(0..SLOTS).find(|i| get(current, *i) == 0)` -/
def findEmpty (cur : Q) : Option Nat := (List.range Gen.SLOTS).find? (fun i => get cur i == 0)

/-- one iteration of `enqueue`: the value to CAS in, or `none` = `expect("No empty slot available")` fires -/
def enqueueStep (cur : Q) (v : Q) : Option Q := (findEmpty cur).map (fun i => set cur i v)

/-- one iteration of `dequeue`: `none` = "completely empty", else the head index and the rest -/
def dequeueStep (cur : Q) : Option (Q × Q) :=
  let val := cur &&& MASK
  if val = 0 then none else some (val, cur >>> Gen.BITS)

/-- pack a list of slot indices (head of the queue first) -/
def pack : List Nat → Q
  | [] => 0
  | d :: rest => BitVec.ofNat 16 d ||| (pack rest <<< Gen.BITS)

/-- read the queue back: digits until the first zero, at most `SLOTS` -/
def unpackAux : Nat → Q → List Nat
  | 0, _ => []
  | fuel + 1, q =>
    let d := (q &&& MASK).toNat
    if d = 0 then [] else d :: unpackAux fuel (q >>> Gen.BITS)

def unpack (q : Q) : List Nat := unpackAux Gen.SLOTS q

/-- all lists of distinct slot indices 1..SLOTS of length at most SLOTS (326 of them) -/
def extend (ls : List (List Nat)) : List (List Nat) :=
  ls.flatMap (fun l => ((List.range Gen.SLOTS).map (· + 1)).filterMap (fun d => if l.contains d then none else some (l ++ [d])))

def validLists : List (List Nat) :=
  let l0 := [[]]
  let l1 := extend l0
  let l2 := extend l1
  let l3 := extend l2
  let l4 := extend l3
  let l5 := extend l4
  l0 ++ l1 ++ l2 ++ l3 ++ l4 ++ l5

end SigHook.Packed
