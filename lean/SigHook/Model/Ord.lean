/-! Memory orderings as declared at the atomic call sites. -/
namespace SigHook

inductive Ord where
  | relaxed | acquire | release | acqRel | seqCst
deriving DecidableEq, Repr, Inhabited

namespace Ord
/-- does a (successful RMW / store) ordering include release semantics -/
def hasRelease : Ord → Bool
  | .release | .acqRel | .seqCst => true
  | _ => false
/-- does a (load / RMW) ordering include acquire semantics -/
def hasAcquire : Ord → Bool
  | .acquire | .acqRel | .seqCst => true
  | _ => false
def toString : Ord → String
  | .relaxed => "Relaxed" | .acquire => "Acquire" | .release => "Release"
  | .acqRel => "AcqRel" | .seqCst => "SeqCst"
end Ord
end SigHook
