import SigHook.Gen.Details
/-!
L11 — `emulate_default_handler` (src/low_level/signal_details.rs:178-238) over a small process
model: disposition of the signal, blocked mask, `raise` semantics.

The kernel's default actions are an environment table (`kernelDefault`, Linux signal(7)),
validated on every run by forked real-kernel probes.
-/
namespace SigHook.Default
open SigHook.Gen

/-- externally visible outcome of a process (as its parent's `waitpid` sees it) -/
inductive Outcome where
  | continues
  | stopped
  | killedBy (n : Int)
  | err
deriving DecidableEq, Repr

/-- Linux default dispositions (signal(7)); core-dumping signals count as "killed by n". -/
def kernelDefault (n : Int) : Outcome :=
  if n = 17 ∨ n = 23 ∨ n = 28 then .continues            -- SIGCHLD SIGURG SIGWINCH: ignored
  else if n = 18 then .continues                           -- SIGCONT
  else if n = 19 ∨ n = 20 ∨ n = 21 ∨ n = 22 then .stopped  -- SIGSTOP SIGTSTP SIGTTIN SIGTTOU
  else if 1 ≤ n ∧ n ≤ 64 then .killedBy n
  else .err

inductive Ctx where
  /-- called from ordinary code: the signal is not blocked -/
  | normal
  /-- called from inside the signal's own handler: the signal is blocked, the library's
      dispatcher is its disposition -/
  | inHandler
deriving DecidableEq, Repr

/-- what `raise n` does to the calling process given whether `n` is blocked and whether its
disposition is the default one. `none` = nothing visible happened, the caller continues. -/
def raiseEffect (n : Int) (blocked : Bool) (isDefault : Bool) : Option Outcome :=
  if n = 9 then some (.killedBy 9)            -- SIGKILL cannot be blocked or handled
  else if n = 19 then some .stopped            -- SIGSTOP neither
  else if blocked then none                    -- stays pending
  else if isDefault then
    match kernelDefault n with
    | .continues => none
    | .err => none
    | o => some o
  else none                                    -- a handler runs and returns

def sigABRT : Int := 6
def sigSTOP : Int := 19
def sigKILL : Int := 9

def findKind (details : List (String × Int × DefaultKind)) (n : Int) : Option DefaultKind :=
  (details.find? (fun d => d.2.1 == n)).map (·.2.2)

def findName (details : List (String × Int × DefaultKind)) (n : Int) : Option String :=
  (details.find? (fun d => d.2.1 == n)).map (·.1)

/-- `emulate_default_handler(n)` called in context `ctx`, for the table `details`.
In `inHandler` the signal `n` is blocked and its disposition is the library's dispatcher;
in `normal` it is unblocked and (as in the probes) at its default disposition. -/
def emulate (details : List (String × Int × DefaultKind)) (n : Int) (ctx : Ctx) : Outcome :=
  let blocked := ctx == .inHandler
  if n = sigSTOP ∨ n = sigKILL then
    (raiseEffect n blocked true).getD .continues
  else
    match findKind details n with
    | none => .err
    | some .ignore => .continues
    | some .stop => (raiseEffect sigSTOP false true).getD .continues
    | some .term =>
      -- restore_default(n) succeeds for every valid number; sigprocmask(SIG_UNBLOCK, {n});
      -- raise(n); abort()
      match raiseEffect n false true with
      | some o => o
      | none => .killedBy sigABRT

/-- is `n` a signal the library knows by name -/
def known (details : List (String × Int × DefaultKind)) (n : Int) : Bool := (findKind details n).isSome

end SigHook.Default
