import SigHook.Model.Packed
import SigHook.Model.Ord
/-
L1 + L2 — `Channel<T>` (src/low_level/channel.rs) as a step machine, one atomic operation or one
cell access per step, N threads with arbitrary finite scripts of `send` / `recv`.

Memory model (L1): each of the two atomics has a *history* of messages (its modification order);
every message carries the view its writer released. A thread has a view: for each atomic the
index of the newest message it has observed (coherence: it never reads older ones), for each cell
the number of accesses to that cell it has observed (happens-before). A relaxed load / a failing
compare-exchange may read ANY message at or after the thread's view (stale reads, chosen by the
environment); a successful compare-exchange reads the LAST message (it is a read-modify-write);
a `compare_exchange_weak` may also fail spuriously. Release / acquire move views as in C11: a
message written by an RMW inherits the view of the message it read (release sequence) and joins
the writer's view iff the success ordering releases; a successful RMW joins the read message's
view into the thread iff its success ordering acquires. An access to a cell by a thread that has
not observed every earlier access to that cell is a data race.

The orderings are parameters (`Orders`), instantiated from `Gen.orderings`.
-/
namespace SigHook.Channel
open SigHook SigHook.Packed

structure View where
  vf : Nat
  ve : Nat
  cells : List Nat
deriving DecidableEq, Repr

def View.bot : View := { vf := 0, ve := 0, cells := List.replicate Gen.SLOTS 0 }

def zipMax : List Nat → List Nat → List Nat
  | a :: as, b :: bs => max a b :: zipMax as bs
  | as, [] => as
  | [], bs => bs

def View.join (a b : View) : View :=
  { vf := max a.vf b.vf, ve := max a.ve b.ve, cells := zipMax a.cells b.cells }

structure Msg where
  val : Q
  view : View
deriving Repr

structure Orders where
  enqLoad : Ord
  enqSucc : Ord
  enqFail : Ord
  deqLoad : Ord
  deqSucc : Ord
  deqFail : Ord
deriving DecidableEq, Repr

inductive Cmd where
  | send (tag : Nat)
  | recv
deriving DecidableEq, Repr

/-- which of the two queues -/
inductive Loc where
  | empty | full
deriving DecidableEq, Repr

inductive Pc where
  | idle
  /-- `dequeue(q)`: the compare-exchange with the value read last -/
  | deqCas (q : Loc) (tag : Option Nat) (cur : Q)
  /-- `send`: write the payload into cell `idx` -/
  | write (idx : Nat) (tag : Nat)
  /-- `recv`: take the payload out of cell `idx` -/
  | take (idx : Nat)
  /-- `enqueue(q, idx)`: the initial relaxed load; `ret` = what the enclosing call returns -/
  | enqLoad (q : Loc) (idx : Nat) (ret : Option Nat)
  | enqCas (q : Loc) (idx : Nat) (ret : Option Nat) (cur : Q)
deriving DecidableEq, Repr

structure Thread where
  script : List Cmd
  pc : Pc
  view : View
deriving Repr

structure Sys where
  full : List Msg
  empty : List Msg
  /-- payload tags in the five cells -/
  cells : List (Option Nat)
  /-- number of accesses to each cell so far -/
  cnt : List Nat
  threads : List Thread
deriving Repr

def initEmptyHist : List Msg :=
  -- `Channel::new`: AtomicU16::new(0), then enqueue(1..=SLOTS), all by the creating thread
  (List.range (Gen.SLOTS + 1)).map (fun k => { val := pack ((List.range k).map (· + 1)), view := View.bot })

def Sys.init (scripts : List (List Cmd)) : Sys :=
  let e := initEmptyHist
  let v0 : View := { View.bot with ve := e.length - 1 }
  { full := [{ val := 0, view := View.bot }], empty := e,
    cells := List.replicate Gen.SLOTS none, cnt := List.replicate Gen.SLOTS 0,
    threads := scripts.map (fun s => { script := s, pc := .idle, view := v0 }) }

def Sys.hist (s : Sys) : Loc → List Msg
  | .empty => s.empty
  | .full => s.full

def Sys.setHist (s : Sys) (l : Loc) (h : List Msg) : Sys :=
  match l with
  | .empty => { s with empty := h }
  | .full => { s with full := h }

def View.at (v : View) : Loc → Nat
  | .empty => v.ve
  | .full => v.vf

def View.setAt (v : View) (l : Loc) (k : Nat) : View :=
  match l with
  | .empty => { v with ve := k }
  | .full => { v with vf := k }

/-- environment choices for one step -/
structure Choice where
  /-- which message a load / failing CAS reads (clamped to `[view, last]`); `none` = the last -/
  read : Option Nat := none
  /-- make a weak CAS fail although it could succeed -/
  spurious : Bool := false
deriving Repr

inductive Obs where
  | load (q : Loc) (v : Q)
  | cas (q : Loc) (expected new : Q) (ok : Bool) (seen : Q)
  | cellWrite (idx : Nat)
  | cellTake (idx : Nat)
deriving DecidableEq, Repr

/-- what a step additionally reports -/
structure Out where
  obs : Obs
  /-- the enclosing `send`/`recv` returned: `some none` = `send` done or `recv` → None; -/
  ret : Option (Option Nat) := none
  /-- payload dropped by this step (a `send` into a full channel) -/
  dropped : Option Nat := none
  race : Bool := false
  panic : Option String := none
deriving Repr

def readIdx (h : List Msg) (lo : Nat) (c : Choice) : Nat :=
  let last := h.length - 1
  match c.read with
  | none => last
  | some k => min (max k lo) last

def msgAt (h : List Msg) (k : Nat) : Msg := h.getD k { val := 0, view := View.bot }

def setTh (s : Sys) (t : Nat) (th : Thread) : Sys := { s with threads := s.threads.set t th }

def idxOf (q : Q) : Nat := q.toNat

/-- begin `enqueue(q, idx)` after the cell access -/
def accessCell (s : Sys) (th : Thread) (idx : Nat) : Sys × Thread × Bool :=
  let i := idx - 1
  let seen := th.view.cells.getD i 0
  let cnt := s.cnt.getD i 0
  let race := seen != cnt
  let s' := { s with cnt := s.cnt.set i (cnt + 1) }
  let th' := { th with view := { th.view with cells := th.view.cells.set i (cnt + 1) } }
  (s', th', race)

/-- One step of thread `t` under environment choice `c`. Always enabled unless the thread is done. -/
def step (o : Orders) (s : Sys) (t : Nat) (c : Choice) : Option (Sys × Out) :=
  match s.threads[t]? with
  | none => none
  | some th =>
    match th.pc with
    | .idle =>
      match th.script with
      | [] => none
      | .send tag :: rest =>
        -- first operation of `send`: the relaxed load in `dequeue(&self.empty)`
        stepLoad s t { th with script := rest } .empty (some tag) c
      | .recv :: rest =>
        stepLoad s t { th with script := rest } .full none c
    | .deqCas q tag cur =>
      -- `current & MASK` was non-zero: compare_exchange_weak(current, current >> BITS, succ, fail)
      let h := s.hist q
      let last := h.length - 1
      let k := readIdx h (th.view.at q) c
      let seen := (msgAt h k).val
      let canSucceed := (msgAt h last).val == cur && !c.spurious && (c.read.isNone || k == last)
      if canSucceed then
        let rd := msgAt h last
        let new := cur >>> Gen.BITS
        let view1 := (if o.deqSucc.hasAcquire then th.view.join rd.view else th.view).setAt q (last + 1)
        let msgView := if o.deqSucc.hasRelease then rd.view.join view1 else rd.view
        let s' := s.setHist q (h ++ [{ val := new, view := msgView }])
        let idx := idxOf (cur &&& MASK)
        let pc' := match tag with
          | some tg => Pc.write idx tg
          | none => Pc.take idx
        some (setTh s' t { th with pc := pc', view := view1 }, { obs := .cas q cur new true cur })
      else
        let view1 := th.view.setAt q k
        let th' := { th with view := view1 }
        -- retry with the value seen; if that one looks empty the loop breaks with None
        if seen &&& MASK == 0 then
          some (setTh s t { th' with pc := .idle },
                { obs := .cas q cur (cur >>> Gen.BITS) false seen, ret := some none, dropped := tag })
        else
          some (setTh s t { th' with pc := .deqCas q tag seen }, { obs := .cas q cur (cur >>> Gen.BITS) false seen })
    | .write idx tag =>
      let (s1, th1, race) := accessCell s th idx
      let s2 := { s1 with cells := s1.cells.set (idx - 1) (some tag) }
      some (setTh s2 t { th1 with pc := .enqLoad .full idx none }, { obs := .cellWrite idx, race := race })
    | .take idx =>
      let (s1, th1, race) := accessCell s th idx
      let v := s1.cells.getD (idx - 1) none
      let s2 := { s1 with cells := s1.cells.set (idx - 1) none }
      match v with
      | some tag => some (setTh s2 t { th1 with pc := .enqLoad .empty idx (some tag) }, { obs := .cellTake idx, race := race })
      | none => some (setTh s2 t { th1 with pc := .idle },
                      { obs := .cellTake idx, race := race, panic := some "Full slot with nothing in it" })
    | .enqLoad q idx ret =>
      let h := s.hist q
      let k := readIdx h (th.view.at q) c
      let v := (msgAt h k).val
      some (setTh s t { th with pc := .enqCas q idx ret v, view := th.view.setAt q k }, { obs := .load q v })
    | .enqCas q idx ret cur =>
      match enqueueStep cur (BitVec.ofNat 16 idx) with
      | none =>
        some (setTh s t { th with pc := .idle },
              { obs := .cas q cur cur false cur, panic := some "No empty slot available" })
      | some new =>
        let h := s.hist q
        let last := h.length - 1
        let k := readIdx h (th.view.at q) c
        let seen := (msgAt h k).val
        let canSucceed := (msgAt h last).val == cur && !c.spurious && (c.read.isNone || k == last)
        if canSucceed then
          let rd := msgAt h last
          let view1 := (if o.enqSucc.hasAcquire then th.view.join rd.view else th.view).setAt q (last + 1)
          let msgView := if o.enqSucc.hasRelease then rd.view.join view1 else rd.view
          let s' := s.setHist q (h ++ [{ val := new, view := msgView }])
          some (setTh s' t { th with pc := .idle, view := view1 },
                { obs := .cas q cur new true cur, ret := some ret })
        else
          some (setTh s t { th with pc := .enqCas q idx ret seen, view := th.view.setAt q k },
                { obs := .cas q cur new false seen })
where
  /-- the relaxed load that starts `dequeue(q)` -/
  stepLoad (s : Sys) (t : Nat) (th : Thread) (q : Loc) (tag : Option Nat) (c : Choice) : Option (Sys × Out) :=
    let h := s.hist q
    let k := readIdx h (th.view.at q) c
    let v := (msgAt h k).val
    let th' := { th with view := th.view.setAt q k }
    if v &&& MASK == 0 then
      -- "It's completely empty": `send` drops its value, `recv` returns None
      some (setTh s t { th' with pc := .idle }, { obs := .load q v, ret := some none, dropped := tag })
    else
      some (setTh s t { th' with pc := .deqCas q tag v }, { obs := .load q v })

end SigHook.Channel
