import SigHook.Model.Channel
import SigHook.Gen.Orderings
/-! The channel model instantiated with the orderings the source declares (regenerated). -/
namespace SigHook.Channel
open SigHook

def chFile := "src/low_level/channel.rs"

def ordFind (fn : String) (k : Nat) : List Ord :=
  match Gen.orderings.find? (fun r => r.1 == chFile && r.2.1 == fn && r.2.2.1 == k) with
  | some r => r.2.2.2.2
  | none => []

/-- the orderings of `enqueue` / `dequeue` in channel.rs, as the model's parameter record;
a site the translator no longer finds counts as `Relaxed` (the weakest) -/
def genOrders : Orders :=
  { enqLoad := (ordFind "enqueue" 1).headD .relaxed
    enqSucc := (ordFind "enqueue" 2).headD .relaxed
    enqFail := ((ordFind "enqueue" 2).drop 1).headD .relaxed
    deqLoad := (ordFind "dequeue" 1).headD .relaxed
    deqSucc := (ordFind "dequeue" 2).headD .relaxed
    deqFail := ((ordFind "dequeue" 2).drop 1).headD .relaxed }

/-- run a schedule with explicit environment choices -/
def runSched (o : Orders) : Sys → List (Nat × Choice) → Sys × List Out
  | s, [] => (s, [])
  | s, (t, c) :: rest =>
    match step o s t c with
    | none => (s, [])
    | some (s', out) => let r := runSched o s' rest; (r.1, out :: r.2)

end SigHook.Channel
