"""Generic flow of one property check (DESIGN.md section 4)."""
import argparse, json, os, random, sys, time
from . import core
from .core import Broken


class PropCheck:
    pid = "C00"
    prop_module = None          # e.g. "SigHook.Props.C05"
    extra_modules = ()
    assumptions = []
    needs_harness = True

    def correspond(self, tier, seed, rng):
        """run the correspondence / monitors. Returns dict with keys: evaluations,
        distinct_nontrivial, rule, samples, traces_validated_against_impl, distribution,
        failures (list of dicts: kind in {'violation','disagreement'}, 'what', 'payload', 'key')."""
        raise NotImplementedError

    def replay(self, payload):
        """re-execute a replay payload; return (still_fails: bool, text)"""
        raise NotImplementedError


def run_check(chk, argv):
    ap = argparse.ArgumentParser()
    ap.add_argument("--tier", default=os.environ.get("VERIF_TIER", "quick"))
    ap.add_argument("--replay")
    ap.add_argument("--skip-proof", action="store_true", help=argparse.SUPPRESS)
    args = ap.parse_args(argv)
    tier = args.tier if args.tier in ("quick", "thorough") else "quick"
    seed = int(os.environ.get("VERIF_SEED", "0") or 0)
    rng = random.Random(seed * 1000003 + int(chk.pid[1:]))
    t0 = time.time()
    pid = chk.pid

    if args.replay:
        payload = json.load(open(args.replay))
        try:
            core.run_extract()
            core.lake_build(["driver"])
            core.cargo_build()
        except Broken as b:
            print("replay: build step failed: %s\n%s" % (b.what, b.detail))
            return 1
        fails, text = chk.replay(payload)
        print(text)
        if fails:
            print("VIOLATION property=%s replay=%s" % (pid, args.replay))
            return 1
        print("replay: no longer fails")
        return 0

    broken = []          # obligations / ties that no longer check (each: str)
    # 1. translator
    try:
        msg = core.run_extract(pid)
        print("[%s] %s" % (pid, msg))
    except Broken as b:
        broken.append("translator (extract.py) no longer understands the source: " + b.detail)
    # 2. proofs
    proof = {"obligations": 0, "discharged": 0, "axioms": {}, "property_theorems": [], "checker_cmd": "",
             "problems": [], "ok": False}
    if not args.skip_proof:
        proof = core.proof_stage(chk.prop_module, chk.extra_modules)
        print("[%s] lean: %d/%d obligations discharged in %.1fs; property theorems: %s" % (
            pid, proof["discharged"], proof["obligations"], proof.get("build_s", 0),
            ", ".join(proof["property_theorems"])))
        for p in proof["problems"]:
            broken.append(p)
        if tier == "thorough" and proof["ok"]:
            rc, log, dt = core.leanchecker([chk.prop_module] + list(chk.extra_modules))
            print("[%s] leanchecker rc=%d (%.0fs)" % (pid, rc, dt))
            proof["leanchecker_rc"] = rc
            if rc != 0:
                broken.append("leanchecker rejects %s: %s" % (chk.prop_module, log[-400:]))
    # 3. harness
    harness_ok = True
    if chk.needs_harness:
        try:
            dt = core.cargo_build()
            print("[%s] harness built in %.1fs" % (pid, dt))
        except Broken as b:
            harness_ok = False
            broken.append("harness no longer builds against /repo: " + b.detail[-1500:])
    driver_ok = os.path.exists(core.DRIVER)
    if not driver_ok:
        broken.append("lean driver did not build")
    # 4./5. correspondence + monitors (also the search for a failing input)
    res = {"evaluations": 0, "distinct_nontrivial": 0, "rule": "", "samples": [], "failures": [],
           "traces_validated_against_impl": 0, "distribution": {}}
    if harness_ok and driver_ok:
        try:
            # a check may search harder for a failing input when a proof obligation or tie is broken
            chk.proof_broken = list(broken)
            res = chk.correspond(tier, seed, rng)
        except Broken as b:
            broken.append("correspondence run broke: %s: %s" % (b.what, b.detail[-1500:]))
    violations = [f for f in res["failures"] if f["kind"] == "violation"]
    disagreements = [f for f in res["failures"] if f["kind"] != "violation"]
    for d in disagreements:
        broken.append("correspondence: " + d["what"])

    # known findings
    known = core.known_findings(pid)
    reported, lines = [], []
    for v in violations:
        k = next((k for k in known if k.get("key") == v.get("key")), None)
        if k:
            lines.append("KNOWN-FINDING: property=%s %s" % (pid, k.get("what", v["what"])))
        else:
            reported.append(v)
    for k in known:
        if not any(v.get("key") == k.get("key") for v in violations):
            lines.append("KNOWN-FINDING: property=%s %s (not re-observed in this run)" % (pid, k.get("what")))

    rc = 0
    out_lines = list(dict.fromkeys(lines))
    if reported:
        rc = 1
        v = reported[0]
        payload = dict(v.get("payload", {}), property=pid, what=v["what"], kind="violation",
                       broken_obligations=broken, all_violations=[x["what"] for x in reported][:20])
        path = core.write_replay(pid, "violation", payload)
        for x in reported[:5]:
            print("[%s] violation: %s" % (pid, x["what"]))
        out_lines.append("VIOLATION property=%s replay=%s" % (pid, path))
    elif broken:
        rc = 1
        payload = {"property": pid, "kind": "no-failing-input-found",
                   "no_longer_checks": broken,
                   "searched": {"evaluations": res["evaluations"], "rule": res["rule"]}}
        if disagreements:
            payload["first_disagreement"] = disagreements[0].get("payload")
        path = core.write_replay(pid, "broken", payload)
        for b in broken[:8]:
            print("[%s] no longer checks: %s" % (pid, b[:600]))
        out_lines.append("VIOLATION property=%s replay=%s no-failing-input-found" % (pid, path))

    coverage = {
        "obligations": max(proof["obligations"], 1),
        "discharged": proof["discharged"],
        "checker_cmd": proof["checker_cmd"] or "lake build",
        "trusted_base": core.TRUSTED_BASE + list(chk.assumptions),
        "property_theorems": proof["property_theorems"],
        "axioms": proof["axioms"],
        "evaluations": res["evaluations"],
        "distinct_nontrivial": res["distinct_nontrivial"],
        "rule": res["rule"],
        "samples": res["samples"][:6] or ["<no correspondence run>"],
        "traces_validated_against_impl": res.get("traces_validated_against_impl", 0),
        "distribution": res.get("distribution", {}),
        "broken": broken[:20],
    }
    for k, v in res.items():
        if k not in coverage and k not in ("failures",):
            coverage[k] = v
    core.write_evidence(pid, tier, seed, "proof", coverage, list(chk.assumptions), time.time() - t0,
                        len(reported) + (1 if (broken and not reported) else 0))
    print("[%s] %s tier: %d correspondence cases (%d distinct non-trivial), %.1fs" % (
        pid, tier, res["evaluations"], res["distinct_nontrivial"], time.time() - t0))
    for l in out_lines:
        print(l)
    return rc
