"""C17 — reported origin equals the kernel's facts, absent when unknown."""
import json, os
from . import core
from .runner import PropCheck

MECHS = ["kill", "raise", "sigqueue", "fromchild", "chld_exit", "chld_kill", "chld_stop", "alarm", "timer"]
# expected kernel facts per mechanism: (signo, si_code name, who)
EXPECT = {
    "kill": ("SIGUSR1", "SI_USER", "me"), "raise": ("SIGUSR2", "SI_TKILL", "me"),
    "sigqueue": ("SIGUSR1", "SI_QUEUE", "me"), "fromchild": ("SIGUSR1", "SI_USER", "child"),
    "chld_exit": ("SIGCHLD", "CLD_EXITED", "child"), "chld_kill": ("SIGCHLD", "CLD_KILLED", "child"),
    "chld_stop": ("SIGCHLD", "CLD_STOPPED", "child"), "alarm": ("SIGALRM", "SI_KERNEL", None),
    "timer": ("SIGUSR2", "SI_TIMER", None),
}
POISON_PID, POISON_UID = 1234567, 7654321


class C17(PropCheck):
    pid = "C17"
    prop_module = "SigHook.Props.C17"
    assumptions = [
        "kernelFills (Props/C17.lean): which si_code values carry valid si_pid/si_uid on Linux; validated by real deliveries (kill, tgkill/raise, sigqueue, child exit/kill/stop, itimer, POSIX timer)",
        "siginfo_t layout Linux x86_64: si_signo@0, si_code@8, si_pid@16, si_uid@20 (independent raw reader in the harness)",
        "macOS arm of has_process / pid==0&&uid==0 special case not modelled",
    ]

    def run_chunk(self, ops):
        rc, impl, err = core.run_harness("origin", "\n".join(ops) + "\n")
        return impl, rc, err

    def correspond(self, tier, seed, rng):
        plat = json.load(open(os.path.join(core.VERIF, "sites.json")))["platform"]
        codes = range(-70, 301) if tier == "quick" else range(-300, 1001)
        ops = ["ex %d %d %d %d" % (s, c, POISON_PID, POISON_UID) for s in range(1, 65) for c in codes]
        # sender ids that are zero (root in an ancestor pid namespace, a record queued with 0/0): where the kernel
        # fills the fields in, zeros are what it filled in and are reported as such
        fillcodes = [plat[k] for k in ("SI_USER", "SI_TKILL", "SI_QUEUE", "SI_MESGQ")]
        cld = [plat[k] for k in ("CLD_EXITED", "CLD_KILLED", "CLD_DUMPED", "CLD_TRAPPED", "CLD_STOPPED", "CLD_CONTINUED")]
        for s in range(1, 65):
            for c in fillcodes + (cld if s == plat["SIGCHLD"] else []) + [plat["SI_KERNEL"], plat.get("SI_TIMER", -2)]:
                for (p0, u0) in ((0, 0), (0, POISON_UID), (POISON_PID, 0)):
                    ops.append("ex %d %d %d %d" % (s, c, p0, u0))
        # extremes
        for s in (0, -1, 65, 128, 2147483647, -2147483648):
            for c in (0, 1, -1, -6, 128, 2147483647, -2147483648):
                ops.append("ex %d %d %d %d" % (s, c, rng.randint(1, 99999), rng.randint(0, 65535)))
        model = core.run_driver("origin", "\n".join(ops) + "\n")
        chunks = [ops[i::16] for i in range(16)]
        res = core.pmap(self.run_chunk, chunks)
        impl_by = {}
        failures = []
        for ch, (impl, rc, err) in zip(chunks, res):
            if rc != 0 or len(impl) != len(ch):
                failures.append({"kind": "disagreement", "key": "C17:harness", "what": "origin probe exited %d (%d/%d lines) %s" % (rc, len(impl), len(ch), err[-200:])})
            for o, l in zip(ch, impl):
                impl_by[o] = l
        dist = {}
        fills = lambda s, c: c in (plat["SI_USER"], plat["SI_TKILL"], plat["SI_QUEUE"], plat["SI_MESGQ"]) or (
            s == plat["SIGCHLD"] and c in [plat[k] for k in ("CLD_EXITED", "CLD_KILLED", "CLD_DUMPED", "CLD_TRAPPED", "CLD_STOPPED", "CLD_CONTINUED")])
        nviol = 0
        for o, mline in zip(ops, model):
            i = impl_by.get(o, "<missing>")
            got = i.split(" | ")[1] if " | " in i else i
            m, spec = mline.split(" | spec ")
            f = dict(x.split("=") for x in got.split()) if "=" in got else {}
            dist["cause:" + f.get("cause", "?")] = dist.get("cause:" + f.get("cause", "?"), 0) + 1
            w = o.split(); s, c, p, u = int(w[1]), int(w[2]), int(w[3]), int(w[4])
            # monitor = the property itself (Lean `specOrigin`), evaluated on the implementation's answer
            if got != spec:
                nviol += 1
                if nviol <= 5:
                    failures.append({"kind": "violation", "key": "C17:ex:%d:%d" % (s, c),
                                     "what": "Origin::extract on si_signo=%d si_code=%d si_pid=%d si_uid=%d reports `%s`; the kernel's facts / intended classification are `%s`" % (s, c, p, u, got, spec),
                                     "payload": {"ops": [o], "impl": [i], "model": [m], "spec": spec}})
            elif got != m:
                nviol += 1
                if nviol <= 5:
                    failures.append({"kind": "disagreement", "key": "C17:exdiff:%d:%d" % (s, c),
                                     "what": "Origin::extract on si_signo=%d si_code=%d: implementation `%s` (meets the spec) vs model `%s`" % (s, c, got, m),
                                     "payload": {"ops": [o], "impl": [i], "model": [m]}})
        # real deliveries
        reps = 2 if tier == "quick" else 10
        rops = ["real " + m for m in MECHS] * reps
        rimpl, rc, err = self.run_chunk(rops)
        if rc != 0 or len(rimpl) != len(rops):
            failures.append({"kind": "disagreement", "key": "C17:real", "what": "real-delivery probe exited %d: %s" % (rc, err[-300:])})
        real_samples = []
        for o, l in zip(rops, rimpl):
            parts = l.split(" | ")
            if len(parts) != 3:
                failures.append({"kind": "disagreement", "key": "C17:realparse", "what": "unparsable: " + l}); continue
            raw = [int(x) for x in parts[0].split()[1:]]
            facts = dict(x.split("=") for x in parts[2].split())
            mech = facts["mech"]
            dist["real:" + mech] = dist.get("real:" + mech, 0) + 1
            m, spec = core.run_driver("origin", "ex %d %d %d %d\n" % tuple(raw))[0].split(" | spec ")
            signame, codename, who = EXPECT[mech]
            want_pid = {"me": facts["me"], "child": facts["child"], None: None}[who]
            # environment validation: the kernel delivered what the mechanism should produce
            if raw[0] != plat[signame] or raw[1] != plat[codename] or (who and str(raw[2]) != want_pid):
                failures.append({"kind": "disagreement", "key": "C17:env:" + mech, "what": "environment: mechanism %s produced raw siginfo %s, expected %s/%s pid=%s" % (mech, raw, signame, codename, want_pid)})
                continue
            want = "sig=%d cause=%s proc=%s" % (raw[0], spec.split("cause=")[1].split()[0], ("%s:%s" % (want_pid, facts["uid"])) if who else "none")
            if parts[1] != want or parts[1] != spec:
                failures.append({"kind": "violation", "key": "C17:real:" + mech,
                                 "what": "real delivery via %s: origin exfiltrator reported `%s`, kernel facts are `%s` (model: `%s`)" % (mech, parts[1], want, m),
                                 "payload": {"ops": [o], "impl": [l], "model": [m]}})
            if len(real_samples) < len(MECHS):
                real_samples.append(l)
        uniq = {}
        for f in failures:
            uniq.setdefault(f["key"], f)
        return {"evaluations": len(ops) + len(rops), "distinct_nontrivial": len(ops) + len(MECHS),
                "rule": "table level: Origin::extract on synthetic siginfo for si_signo 1..64 x si_code %d..%d with poison in the pid/uid bytes (+ extreme numbers), compared with the Lean model and with the kernel contract; plus %d real deliveries through SignalsInfo<WithOrigin> (%s) compared with getpid/getuid/child pid and an independent raw siginfo reader" % (codes[0], codes[-1], len(rops), ", ".join(MECHS)),
                "samples": [{"op": ops[5000], "impl": impl_by.get(ops[5000]), "model": model[5000]}] + real_samples[:5],
                "traces_validated_against_impl": len(ops) + len(rops), "distribution": dist, "exhaustive": False,
                "failures": list(uniq.values())}

    def replay(self, payload):
        ops = payload["ops"]
        impl, rc, err = self.run_chunk(ops)
        lines, bad = [], False
        for o, i in zip(ops, impl):
            lines.append("%s -> %s" % (o, i))
        if ops and ops[0].startswith("ex"):
            model = core.run_driver("origin", "\n".join(ops) + "\n")
            for o, i, m in zip(ops, impl, model):
                if i.split(" | ")[1] != m.split(" | spec ")[1]:
                    bad = True
                lines.append("   model: " + m)
        else:
            bad = True   # real-delivery replays are re-judged by a full run
        return bad, "\n".join(lines)
