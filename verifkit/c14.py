"""C14 (forbidden / invalid refused before anything changes) and C12 (Signals instance survives
rejected additions, cleans up) — forked operation-level probes against the L10 model."""
import re
from . import core
from .runner import PropCheck

FORBIDDEN = [9, 19, 4, 8, 11]
ENTRIES = ["register", "register_sigaction", "register_signal_unchecked", "register_unchecked", "flag",
           "flag_usize", "cond_shutdown", "cond_default", "pipe", "pipe_raw", "pipe_dgram"]
UNCHECKED = ("register_signal_unchecked", "register_unchecked")
NUMS = list(range(-2, 131)) + [1000, 2147483647, -2147483648]


def os_rejects_set(n):
    return n < 1 or n > 64 or n in (32, 33, 9, 19)


def split_blocks(lines):
    blocks, cur = [], []
    for l in lines:
        if l.strip() == "---":
            blocks.append(cur); cur = []
        else:
            cur.append(l)
    if cur:
        blocks.append(cur)
    return blocks


def run_blocks(blocks):
    text = "\n---\n".join("\n".join(b) for b in blocks) + "\n---\n"
    rc, impl, err = core.run_harness("entries", text, timeout=600)
    if rc != 0:
        raise core.Broken("entries-harness", "exit %d %s" % (rc, err[-300:]))
    model = core.run_driver("entries", text, timeout=600)
    ib, mb = split_blocks(impl), split_blocks(model)
    if len(ib) != len(blocks) or len(mb) != len(blocks):
        raise core.Broken("entries", "block count mismatch impl=%d model=%d want=%d" % (len(ib), len(mb), len(blocks)))
    return ib, mb


def canon_impl(lines):
    # the abort message of the Rust runtime goes to stderr; keep only protocol lines
    return [l for l in lines if not l.startswith("thread ")]


def canon_model(lines):
    out = []
    for l in lines:
        if l == "DEAD":
            continue
        out.append(l)
    return out


def c14_blocks(rng, tier):
    blocks = []
    nums = NUMS if tier != "quick" else sorted(set(list(range(-2, 70)) + [100, 127, 128, 129, 130, 1000, 2147483647, -2147483648]))
    for e in ENTRIES:
        for n in nums:
            ctxs = [[]]
            if n % 7 == 0 or n in FORBIDDEN:
                ctxs.append(["reg flag 10", "reg register 12", "reg pipe 14"])
            if n in (4, 8, 11):
                ctxs.append(["reg register_signal_unchecked %d" % n])
                ctxs.append(["reg register_unchecked %d" % n, "reg flag 10"])
            for ctx in ctxs:
                blocks.append(ctx + ["reg %s %d" % (e, n), "usable"])
    # iterator front-ends
    for n in nums:
        if n in (10,):
            continue
        blocks.append(["new only %d" % n, "usable"])
        blocks.append(["new only 10 %d" % n, "check 10", "usable"])
        blocks.append(["new only 10", "add %d" % n, "check 10", "usable"])
        blocks.append(["new only 10", "hadd %d" % n, "check 10", "usable"])
        if n % 5 == 0 or n in FORBIDDEN:
            blocks.append(["new raw 10 %d" % n, "usable"])
            blocks.append(["new raw 10", "add %d" % n, "usable"])
    return blocks


def c12_blocks(rng, tier):
    blocks = []
    n = 300 if tier == "quick" else 10000
    good = [1, 2, 10, 12, 14, 15, 17, 34, 64]
    bad = [9, 19, 4, 8, 11, -1, -5, 128, 200, 1000, 100, 65, 127, 0, 32]
    for _ in range(n):
        exf = rng.choice(["only", "only", "raw"])
        first = rng.sample(good, rng.randint(1, 3))
        if rng.random() < 0.3:
            # the same number listed twice (or more) in the initial set
            for _ in range(rng.randint(1, 2)):
                first.insert(rng.randint(0, len(first)), rng.choice(first))
        b = ["new %s %s" % (exf, " ".join(str(x) for x in first))]
        watched = list(first)
        for _ in range(rng.randint(2, 8)):
            r = rng.random()
            if r < 0.3:
                x = rng.choice(bad); b.append("%s %d" % (rng.choice(["add", "hadd"]), x))
            elif r < 0.5:
                x = rng.choice(good); b.append("%s %d" % (rng.choice(["add", "hadd"]), x)); watched.append(x)
            elif r < 0.6 and watched:
                b.append("add %d" % rng.choice(watched))
            elif r < 0.9 and watched:
                b.append("check %d" % rng.choice(watched))
            else:
                b.append("check %d" % rng.choice(good))
        r = rng.random()
        if r < 0.25:
            # the instance goes first; a handle clone that outlived it keeps adding; then the handles go
            b.append("dropinst")
            for _ in range(rng.randint(1, 3)):
                if rng.random() < 0.7:
                    x = rng.choice(good + bad[:6]); b.append("hadd %d" % x)
                    if x in good:
                        watched.append(x)
                else:
                    b.append("check %d" % rng.choice(watched))
            b.append("drophandles")
            b.append("check %d" % rng.choice(watched))
        elif r < 0.85:
            if rng.random() < 0.15:
                # somebody clears one of its signals behind the instance's back first (the deprecated registry
                # call): the ids it recorded are stale, dropping it must cope
                b.append("unregsig %d" % rng.choice(watched))
            b.append("drop")
            b.append("check %d" % rng.choice(watched))
        b.append("usable")
        blocks.append(b)
    blocks.append(["new only 10 12", "unregsig 10", "check 10", "check 12", "drop", "check 12", "usable"])
    blocks.append(["new raw 10 12", "unregsig 12", "check 12", "dropinst", "drophandles", "check 10", "usable"])
    blocks.append(["new only 10", "dropinst", "hadd 12", "drophandles", "check 12", "usable"])
    blocks.append(["new raw 10", "dropinst", "hadd 12", "hadd 9", "hadd 14", "drophandles", "check 14", "usable"])
    # constructor failures
    for x in bad:
        blocks.append(["new only 10 12 %d" % x, "check 10", "usable"])
        blocks.append(["new raw 10 %d 12" % x, "check 12", "usable"])
        blocks.append(["new raw 10", "add %d" % x, "add %d" % x, "add 12", "check 12", "drop", "usable"])
        blocks.append(["new only 12 12 %d" % x, "check 12", "usable"])
        blocks.append(["new raw 10 12 10 %d" % x, "usable"])
    return blocks


def monitor_c14(block, impl):
    """the property itself on the implementation's answers"""
    probs = []
    ops = [l for l in block]
    ex = next((l for l in impl if l.startswith("exit")), "exit ?")
    if ex != "exit continues":
        probs.append("the process did not survive: %s (ops: %s)" % (ex, "; ".join(ops)))
    for op, res in zip(ops, impl):
        w = op.split()
        if w[0] == "reg":
            e, n = w[1], int(w[2])
            if e not in UNCHECKED and n in FORBIDDEN:
                if not res.startswith("panic disp=same res=released"):
                    probs.append("`%s` (checked entry, forbidden signal): expected a catchable panic with nothing changed and everything released, got `%s`" % (op, res))
            elif os_rejects_set(n):
                if not res.startswith("err disp=same res=released") and not (n in FORBIDDEN):
                    probs.append("`%s` (number the OS rejects): expected an error with nothing changed and everything released, got `%s`" % (op, res))
            elif e in UNCHECKED:
                if not res.startswith("ok"):
                    probs.append("`%s` (unchecked entry, OS accepts): expected success, got `%s`" % (op, res))
            elif res.startswith(("err", "panic")) and not res.startswith(("err disp=same res=released", "panic disp=same res=released")):
                # whatever the reason for a refusal (e.g. a number the library has no name for): nothing may have changed
                probs.append("`%s` was refused, but not before something changed: `%s` (a refusal must leave every disposition as it was and release what was handed in)" % (op, res))
        elif w[0] in ("add", "hadd") or w[0] == "new":
            nums = [int(x) for x in (w[1:] if w[0] != "new" else w[2:])]
            before = []
            for n in nums:
                valid = 1 <= n <= 64 and n not in (32, 33) and n not in FORBIDDEN
                if valid:
                    before.append(n)
                    continue
                # the first number that must be refused decides the outcome; signals listed before it
                # were legitimately taken over (their disposition stays the library's: C05), nothing else
                # may have changed
                want = "panic" if (n in FORBIDDEN or n < 0 or n >= 128) else "err"
                changed = []
                mm = re.search(r"disp=changed:(\S+)", res)
                if mm:
                    changed = [int(x.split(":")[0]) for x in mm.group(1).split(",")]
                if not res.startswith(want) or any(c not in before for c in changed):
                    probs.append("`%s` (iterator front-end, %s): expected a catchable %s with nothing changed beyond the signals listed before it, got `%s`" % (
                        op, "forbidden signal %d" % n if n in FORBIDDEN else "number %d" % n, "panic" if want == "panic" else "error", res))
                elif w[0] == "new" and "fds=" in res and not res.endswith("fds=+0"):
                    probs.append("`%s` (iterator front-end, refused %s): the refusal must leave nothing behind, but descriptors stayed open (`%s`): a registration the constructor made before the refusal is still in the registry and keeps the instance's self-pipe alive" % (
                        op, "forbidden signal %d" % n if n in FORBIDDEN else "number %d" % n, res))
                break
        elif w[0] == "usable" and res != "usable true":
            probs.append("after `%s` the library is no longer usable: `%s`" % ("; ".join(ops), res))
    return probs


def monitor_c12(block, impl):
    probs = []
    ex = next((l for l in impl if l.startswith("exit")), "exit ?")
    if ex != "exit continues":
        probs.append("the process was aborted or killed (%s) by: %s" % (ex, "; ".join(block)))
        return probs
    watched, alive, poisoned_by = set(), False, None
    inst_gone = False
    for op, res in zip(block, impl):
        w = op.split()
        if w[0] == "new":
            nums = [int(x) for x in w[2:]]
            inst_gone = False
            if res.startswith("ok"):
                watched, alive = set(nums), True
            else:
                watched, alive = set(), False
                if "fds=" in res and not res.endswith("fds=+0"):
                    probs.append("the failed constructor `%s` left descriptors behind (`%s`): a registration it made keeps its self-pipe alive" % (op, res))
        elif w[0] in ("add", "hadd") and alive:
            n = int(w[1])
            valid = 1 <= n <= 64 and n not in (32, 33) and n not in FORBIDDEN
            if n in watched:
                if not res.startswith("ok disp=same"):
                    probs.append("re-adding watched signal %d should be a no-op, got `%s`%s" % (n, res, (" (after rejected `%s`)" % poisoned_by) if poisoned_by else ""))
            elif valid:
                if not res.startswith("ok"):
                    probs.append("`%s` on a live instance%s: expected success, got `%s`" % (op, (" after the rejected `%s`" % poisoned_by) if poisoned_by else "", res))
                else:
                    watched.add(n)
            else:
                want = "panic" if (n in FORBIDDEN or n < 0 or n >= 128) else "err"
                if not res.startswith(want + " disp=same"):
                    probs.append("`%s`%s should be rejected by %s leaving everything as before, got `%s`" % (
                        op, (" (after the rejected `%s`)" % poisoned_by) if poisoned_by else "",
                        "its documented panic" if want == "panic" else "returning the OS error", res))
                poisoned_by = op
        elif w[0] == "check":
            n = int(w[1])
            if res.startswith("flag="):
                want = "[%d]" % n if (alive and n in watched and not inst_gone) else "[]"
                if "yielded=%s" % want not in res or "flag=true" not in res:
                    probs.append("`%s`: expected flag=true yielded=%s%s, got `%s`" % (op, want, (" (after rejected `%s`)" % poisoned_by) if poisoned_by else "", res))
        elif w[0] == "unregsig":
            # cleared behind the instance's back: no longer delivered through it; everything else as before
            watched.discard(int(w[1]))
        elif w[0] == "dropinst":
            inst_gone = True
        elif w[0] == "drophandles":
            if not res.startswith("ok fds=+0"):
                probs.append("the instance and then the last handle were dropped%s: every registration made through either must be gone and the pipe closed, got `%s`" % ((" after rejected `%s`" % poisoned_by) if poisoned_by else "", res))
            alive, watched = False, set()
        elif w[0] == "drop":
            if not res.startswith("ok fds=+0"):
                probs.append("dropping the instance and its handles%s: expected clean removal of its registrations and its pipe, got `%s`" % ((" after rejected `%s`" % poisoned_by) if poisoned_by else "", res))
            alive, watched = False, set()
        elif w[0] == "usable" and res != "usable true":
            probs.append("library unusable at the end of: %s" % "; ".join(block))
    return probs


class EntryCheck(PropCheck):
    pid = "C14"
    prop_module = "SigHook.Props.C14"
    assumptions = [
        "OS verdict table (Model/Env.lean): sigaction rejects n<1, n>64, 32, 33 and (for a set) 9, 19 — validated by these very probes on this kernel",
        "each probe runs in a forked child with all dispositions reset; resources observed: Arc strong counts, descriptor validity, all 64 dispositions before/after, open-descriptor count, a follow-up registration + raise",
        "panics are caught with catch_unwind; an abort is seen as the child's wait status",
    ]

    def blocks(self, rng, tier):
        return c14_blocks(rng, tier)

    def monitor(self, block, impl):
        return monitor_c14(block, impl)

    def correspond(self, tier, seed, rng):
        blocks = self.blocks(rng, tier)
        chunks = [blocks[i::core.NPROC] for i in range(core.NPROC)]
        res = core.pmap(run_blocks, chunks)
        failures, dist, nontrivial = [], {}, 0
        known_keys = set()
        for ch, (ib, mb) in zip(chunks, res):
            for b, i, m in zip(ch, ib, mb):
                i, m = canon_impl(i), canon_model(m)
                for l in i:
                    k = l.split()[0]
                    dist[k] = dist.get(k, 0) + 1
                if any(l.startswith(("panic", "err")) for l in i):
                    nontrivial += 1
                probs = self.monitor(b, i)
                payload = {"ops": b, "impl": i, "model": m}
                if probs:
                    key = "%s:%s" % (self.pid, self.classify(b, probs[0]))
                    failures.append({"kind": "violation", "key": key, "what": probs[0], "payload": payload})
                elif i != m:
                    d = core.first_diff(m, i)
                    failures.append({"kind": "disagreement", "key": self.pid + ":diff:" + " ".join(b[-2:-1]),
                                     "what": "ops `%s`: model `%s` vs implementation `%s`" % ("; ".join(b), d[1], d[2]), "payload": payload})
        uniq = {}
        for f in failures:
            uniq.setdefault(f["key"], f)
        return {"evaluations": len(blocks), "distinct_nontrivial": nontrivial,
                "rule": self.rule, "samples": [{"ops": blocks[k], "impl": canon_impl(res[k % core.NPROC][0][k // core.NPROC])} for k in (0, 17)],
                "traces_validated_against_impl": len(blocks), "distribution": dist, "exhaustive": self.pid == "C14",
                "failures": list(uniq.values())}

    def classify(self, block, prob):
        # identify a defect by the kind of rejected call that triggers it (for known findings)
        if "aborted" in prob or "did not survive" in prob:
            return "abort-in-constructor"
        if "Init" in prob or "raw" in " ".join(block) and "add" in prob:
            return "raw-retry"
        return core.digest(prob[:60])

    def replay(self, payload):
        ib, mb = run_blocks([payload["ops"]])
        i, m = canon_impl(ib[0]), canon_model(mb[0])
        probs = self.monitor(payload["ops"], i)
        return bool(probs) or i != m, "ops: %s\nimpl:  %s\nmodel: %s\n%s" % ("; ".join(payload["ops"]), i, m, "\n".join(probs))


class C14(EntryCheck):
    pid = "C14"
    prop_module = "SigHook.Props.C14"
    rule = ("every registration entry point (11 plain ones + Signals::new / SignalsInfo<WithRawSiginfo>::new / add_signal on the instance and on a handle) x every signal number -2..130 and extremes (quick: -2..69 + selected), in a fresh process, after other registrations, and after an unchecked registration of the same forbidden signal; one forked child per case; compared with the L10 model and judged by the property monitor; non-trivial = a rejected call")


class C12(EntryCheck):
    pid = "C12"
    prop_module = "SigHook.Props.C12"

    def correspond(self, tier, seed, rng):
        res = super().correspond(tier, seed, rng)
        # concurrent add_signal through handle clones (step level, scheduler), then drop everything:
        # nothing the instance registered may remain
        from . import c09
        class Adders(c09.IterCheck):
            pid = "C12"
            profile = "adders"
        ares = Adders().correspond(tier, seed, rng)
        res["failures"] += ares["failures"]
        res["evaluations"] += ares["evaluations"]
        res["distribution"]["concurrent_add_scenarios"] = ares["evaluations"]
        res["rule"] += "; plus scheduled scenarios in which 2-3 handle clones add the same new signals concurrently with deliveries and a consumer, followed by dropping the instance and all handles and re-delivering every signal (no action of the instance may still run)"
        return res
    rule = ("random histories of new / add_signal (instance and handle clones; valid, watched, forbidden, negative, too large, OS-rejected numbers) / check (real raise: yielded by the instance? seen by an independent flag?) / drop / usable on real Signals and SignalsInfo<WithRawSiginfo>, one forked child each, plus constructor-failure cases; compared with the L10 model and judged by the property monitor; non-trivial = contains a rejected call")

    def blocks(self, rng, tier):
        return c12_blocks(rng, tier)

    def monitor(self, block, impl):
        return monitor_c12(block, impl)
