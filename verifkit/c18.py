"""C18 — registry calls terminate when overlapping deliveries terminate (half-lock level)."""
import re
from . import core, hl
from .runner import PropCheck

TID = re.compile(r"^t(\d+) (H )?(.*)$")


def monitor_c18(trace, status):
    problems = []
    if status != "END done":
        problems.append("scenario did not run to completion: %s (deadlock = every unfinished thread blocked; limit = still spinning after the step budget)" % status)
    # quiescent completion: once no reader is inside a read section (and none enters before the
    # writer unlocks), the writer needs at most 8 more own steps
    # a poisoned writer mutex must not stop a later mutator: after `mutex_lock .. poisoned` the same
    # thread goes on with write()'s data load instead of unwinding
    last = {}
    for i, l in enumerate(trace):
        m = TID.match(l)
        if not m:
            continue
        tid, body = int(m.group(1)), m.group(3)
        if last.get(tid, "").endswith("poisoned") and body.startswith("mutex_unlock") and "panicking" in body:
            problems.append("step %d: t%d found the writer mutex poisoned by an earlier mutator's panic and panicked itself instead of proceeding: later mutators are wedged" % (i, tid))
        last[tid] = body
    # the writer waits for what was in flight, not for later arrivals (C18_seen_slot_not_reloaded,
    # C18_barrier_ends_when_both_seen): once it has itself found each slot empty since it took the
    # writer mutex, it has no reason to look at a slot again; a writer that does is waiting for
    # deliveries that began after it published, and a continuous stream of those holds it for ever.
    # (Two further loads are tolerated so that a rewrite that finishes its pass is not blamed.)
    seen = {}      # tid -> [slot0 seen empty, slot1 seen empty, loads since both]
    for i, l in enumerate(trace):
        m = TID.match(l)
        if not m:
            continue
        tid, body = int(m.group(1)), m.group(3)
        if body.startswith("mutex_lock"):
            seen[tid] = [False, False, 0]
        elif body.startswith("mutex_unlock"):
            seen.pop(tid, None)
        elif tid in seen:
            mm = re.match(r"load (\S*)lock([01]) = (\d+)", body)
            if mm:
                st = seen[tid]
                if st[0] and st[1]:
                    st[2] += 1
                    if st[2] == 3:
                        problems.append("step %d: writer t%d has found each slot empty since it published (so every delivery in flight then has returned), yet it goes on waiting: `%s` is its %dth further look at the slots; it is waiting for deliveries that began later, and a continuous stream of them would hold it for ever" % (i, tid, body, st[2]))
                if int(mm.group(3)) == 0:
                    st[int(mm.group(2))] = True
    # (A monitor "once everybody who was inside at the generation switch has left, the writer finishes within 8
    # own steps, whatever has arrived since" was tried in round nine and removed: the unchanged code does not
    # satisfy it. A reader that enters the current slot after the writer's first - sticky - look at it and stays
    # across that writer's switch is still there at the next writer's first look; that writer then has seen neither
    # slot empty, switches, and has to wait for the slot new arrivals go to. See DESIGN.md, section 14.)
    inside = set()
    writer_steps_since_quiet = {}   # tid -> own steps since the last moment a reader was inside
    for i, l in enumerate(trace):
        m = TID.match(l)
        if not m:
            continue
        tid, body = int(m.group(1)), m.group(3)
        if body.startswith("fetch_add lock"):
            inside.add(tid)
            writer_steps_since_quiet = {k: 0 for k in writer_steps_since_quiet}
        elif body.startswith("fetch_sub lock"):
            inside.discard(tid)
            writer_steps_since_quiet = {k: 0 for k in writer_steps_since_quiet}
        elif body.startswith("mutex_lock"):
            writer_steps_since_quiet[tid] = 0
        elif body.startswith("mutex_unlock"):
            writer_steps_since_quiet.pop(tid, None)
        elif tid in writer_steps_since_quiet:
            if not inside:
                writer_steps_since_quiet[tid] += 1
                if writer_steps_since_quiet[tid] > 8:
                    problems.append("step %d: writer t%d has taken %d own steps with no reader inside a read section and still has not returned (bound: 8)" % (i, tid, writer_steps_since_quiet[tid]))
                    writer_steps_since_quiet[tid] = -10**9
    return problems


def gen_leapfrog(rng):
    """one writer and a stream of overlapping long read sections: readers keep arriving after the
    writer published, so that at most moments somebody is inside one of the slots"""
    lines = ["t0 write 1"] + (["t0 write 1"] if rng.random() < 0.4 else [])
    for t in range(1, rng.randint(3, 5)):
        for _ in range(rng.randint(2, 4)):
            lines.append("t%d read %d" % (t, rng.choice([2, 3, 3, 4])))
    lines.append("seed %d" % rng.randint(1, 2**31))
    lines.append("maxsteps 1500")
    return lines


def gen_scenario(rng):
    if rng.random() < 0.2:
        return gen_leapfrog(rng)
    n = rng.randint(2, 5)
    lines = []
    for t in range(n):
        for _ in range(rng.randint(1, 3)):
            r = rng.random()
            if r < 0.6:
                lines.append("t%d write %d" % (t, rng.choice([1, 1, 1, 2, 2, 0])))
            else:
                lines.append("t%d read %d" % (t, rng.choice([0, 1, 3])))
    lines.append("seed %d" % rng.randint(1, 2**31))
    lines.append("maxsteps 1500")
    return lines


class C18(PropCheck):
    pid = "C18"
    prop_module = "SigHook.Props.C18"
    extra_modules = ("SigHook.Props.C18b", "SigHook.Props.C18c")
    assumptions = [
        "sequential consistency for the half-lock (all SeqCst, checked in C01_halflock_all_seqcst)",
        "finite workloads: every thread runs a finite script; a writer may spin for as long as a reader stays inside its read section (by design)",
        "std::sync::Mutex: a free mutex is acquired by some waiter (no fairness assumed)",
        "panics modelled: a destructor that panics while the old snapshot is dropped under the writer mutex (poisoning it)",
    ]

    def correspond(self, tier, seed, rng):
        n = 400 if tier == "quick" else 30000
        scenarios = [gen_scenario(rng) for _ in range(n)]
        # kept schedules run first (corpus/halflock_*.txt: e.g. the writer that finds both slots busy at its first look)
        import glob, os
        for f in sorted(glob.glob(os.path.join(core.VERIF, "corpus", "halflock_*.txt"))):
            scenarios.insert(0, [l.strip() for l in open(f) if l.strip() and not l.startswith("#")])
        batches = [scenarios[i::core.NPROC] for i in range(core.NPROC)]
        results = []
        for r in core.pmap(hl.run_batch, batches):
            results += r
        failures, dist, distinct, nontrivial, steps = [], {}, set(), 0, 0
        for r in results:
            steps += len(r["impl"])
            key = core.digest([r["scenario"][:-2], r["schedule"]])
            contended = sum(1 for l in r["impl"] if "mutex_lock" in l) >= 2
            if key not in distinct:
                distinct.add(key)
                if contended:
                    nontrivial += 1
            dist["end:" + r["status"]] = dist.get("end:" + r["status"], 0) + 1
            for tag in ("poisoned", "panicking", " spin", " yield"):
                c = sum(1 for l in r["impl"] if tag in l)
                if c:
                    dist["scenarios_with:" + tag.strip()] = dist.get("scenarios_with:" + tag.strip(), 0) + 1
            probs = monitor_c18(r["impl"], r["status"])
            d = core.first_diff(r["model"] + [r["model_end"]], r["impl"] + [r["status"]])
            payload = {"scenario": r["scenario"], "schedule": r["schedule"], "impl": r["impl"], "model": r["model"]}
            if probs:
                failures.append({"kind": "violation", "key": "C18:hl:" + core.digest(probs[0].split(":")[-1][:40]),
                                 "what": "half-lock schedule (%d steps): %s" % (len(r["schedule"]), probs[0]), "payload": payload})
            elif d is not None:
                failures.append({"kind": "disagreement", "key": "C18:hldiff",
                                 "what": "half-lock step trace differs from the model at step %d: model `%s` vs implementation `%s`" % d, "payload": payload})
        # registry level: two half-locks, first registrations, unregister_signal
        from . import c02
        rcres = c02.C18rc().correspond(tier, seed, rng)
        failures += rcres["failures"]
        dist["registry_scenarios"] = rcres["evaluations"]
        for k, v in rcres["distribution"].items():
            if k.startswith("end:"):
                dist["registry_" + k] = v
        # the iterator's add / drop calls: forked histories on real instances, incl. dropping an instance one of whose
        # signals was cleared behind its back (the ids it recorded are stale); every call returns, none hangs
        from . import c14
        eblocks = [["new only 10 12", "unregsig 10", "drop", "usable"], ["new raw 10 12", "unregsig 12", "dropinst", "drophandles", "usable"],
                   ["new only 10", "hadd 12", "unregsig 12", "hadd 14", "drop", "usable"], ["new only 10 12", "add 9", "add 14", "drop", "usable"]]
        ib, mb = c14.run_blocks(eblocks)
        for b, i, m in zip(eblocks, ib, mb):
            ends = [l for l in i if l.startswith("exit ")]
            hung = any("hang" in l for l in ends) or any(l.startswith("exit killedBy") for l in ends)
            if hung or len([l for l in i if not l.startswith("exit")]) < len(b):
                failures.append({"kind": "violation", "key": "C18:entries:" + core.digest(b),
                                 "what": "iterator history `%s`: a call did not return (`%s`)" % ("; ".join(b), (ends or ["?"])[-1]),
                                 "payload": {"entries": True, "ops": b, "impl": i, "model": m}})
        dist["iterator_add_drop_histories"] = len(eblocks)
        uniq = {}
        for f in failures:
            uniq.setdefault(f["key"], f)
        return {"evaluations": len(results) + rcres["evaluations"] + len(eblocks), "distinct_nontrivial": nontrivial + rcres["distinct_nontrivial"],
                "rule": "random scenarios with 2-5 threads, mostly writers (incl. no-store writes and stores whose old value's destructor panics under the writer mutex) plus readers (a fifth of the scenarios: one writer under a stream of overlapping long read sections), on the real HalfLock under the deterministic PRNG scheduler; compared step by step with the Lean model; monitors: runs to completion (no deadlock / livelock within the budget), quiescent completion bound (8 own steps), no further look at the slots once each was found empty (waits only for deliveries in flight at publication), poisoned mutex does not stop later writers; non-trivial = at least two write calls",
                "samples": [{"scenario": results[0]["scenario"], "schedule": " ".join(results[0]["schedule"]), "trace": results[0]["impl"][:12]}] if results else [],
                "traces_validated_against_impl": len(results), "steps_compared": steps, "distribution": dist,
                "failures": list(uniq.values())}

    def replay(self, payload):
        if payload.get("entries"):
            from . import c14
            ib, mb = c14.run_blocks([payload["ops"]])
            ends = [l for l in ib[0] if l.startswith("exit ")]
            return any("hang" in l or l.startswith("exit killedBy") for l in ends), "\n".join(ib[0])
        if any(l.startswith("setup") or " reg" in l or "deliver" in l for l in payload["scenario"]):
            from . import c02
            return c02.C18rc().replay(payload)
        sc = [l for l in payload["scenario"] if not l.startswith("seed")] + ["schedule " + " ".join(payload["schedule"])]
        r = hl.run_batch([sc])[0]
        probs = monitor_c18(r["impl"], r["status"])
        d = core.first_diff(r["model"], r["impl"])
        return bool(probs) or d is not None, "\n".join(r["impl"] + [r["status"]] + probs)
