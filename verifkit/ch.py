"""Channel step scenarios (L2): generator, runner, canonicalisation, trace monitors (C06, C07, C08)."""
import os
import re
from . import core


def gen_scenario(rng, big=False):
    n = rng.randint(2, 4)
    lines, tag = [], 1
    tid = 0
    hosts = []
    for _ in range(n):
        kind = rng.random()
        k = rng.randint(1, 7 if big else 5)
        if kind < 0.4:      # producer (bursts longer than the buffer happen)
            for _ in range(k):
                lines.append("t%d send %d" % (tid, tag)); tag += 1
        elif kind < 0.7:    # consumer
            for _ in range(k):
                lines.append("t%d recv" % tid)
        else:               # mixed
            for _ in range(k):
                if rng.random() < 0.5:
                    lines.append("t%d send %d" % (tid, tag)); tag += 1
                else:
                    lines.append("t%d recv" % tid)
        hosts.append(tid)
        tid += 1
    for h in hosts:
        for _ in range(rng.choice([0, 0, 1, 1, 2])):
            lines.append("t%d nested t%d send %d" % (tid, h, tag)); tag += 1; tid += 1
    if not any(" send " in l for l in lines):
        lines.insert(0, "t0 send %d" % tag)
    if rng.random() < 0.4:
        lines.insert(0, "setup default")      # built through `Default`, as the exfiltrators build theirs
    lines.append("spurious %d" % rng.choice([0, 30, 100, 250]))
    lines.append("seed %d" % rng.randint(1, 2**31))
    lines.append("maxsteps 3000")
    return lines


def split_blocks(lines):
    blocks, cur = [], []
    for l in lines:
        if l.strip() == "---":
            blocks.append(cur); cur = []
        else:
            cur.append(l)
    if cur:
        blocks.append(cur)
    return blocks


CALL = re.compile(r"^(t\d+) call ")


def canon(lines):
    """a `call` line is logged as soon as the thread gets there; attach it to the thread's next step;
    a `cellmod` line (what the step changed in memory) is moved up to follow the step's event line"""
    moved = []
    for l in lines:
        w = l.split()
        if len(w) > 1 and w[1] == "cellmod":
            # insert after the last event line (load/cas/cell) of this thread
            k = len(moved)
            while k > 0:
                p = moved[k - 1].split()
                if p[0] == w[0] and len(p) > 1 and p[1] in ("load", "cas_weak", "cell", "cellmod"):
                    break
                k -= 1
            moved.insert(k if k > 0 else len(moved), l)
        else:
            moved.append(l)
    lines = moved
    out, pending = [], {}
    for l in lines:
        m = CALL.match(l)
        if m:
            pending.setdefault(m.group(1), []).append(l)
            continue
        t = l.split()[0]
        if t in pending:
            out += pending.pop(t)
        out.append(l)
    for t in sorted(pending):
        out += pending[t]
    return out


def run_batch(scenarios):
    iblocks = []
    todo = list(scenarios)
    while todo:
        text = "\n---\n".join("\n".join(s) for s in todo) + "\n---\n"
        rc, out, err = core.run_harness("channel", text, timeout=900)
        if rc != 0:
            raise core.Broken("channel-harness", "exit %d: %s" % (rc, err[-500:]))
        # a scenario that did not finish (an operation that waits) ends its process; the rest is run
        # in a fresh one
        abandoned = bool(out) and out[-1].strip() == "ABANDONED"
        got = split_blocks(out[:-1] if abandoned else out)
        if not got:
            raise core.Broken("channel-harness", "no output for %d scenarios" % len(todo))
        iblocks += got
        todo = todo[len(got):] if abandoned else []
    if len(iblocks) != len(scenarios):
        raise core.Broken("channel-harness", "%d blocks for %d scenarios" % (len(iblocks), len(scenarios)))
    dtext, parsed = [], []
    for sc, blk in zip(scenarios, iblocks):
        sched = next((l for l in blk if l.startswith("SCHEDULE")), "SCHEDULE")
        status = next((l for l in blk if l.startswith("END")), "END ?")
        final = next((l for l in blk if l.startswith("final-drop")), "final-drop ?")
        obs = canon([l for l in blk if not l.startswith(("SCHEDULE", "END", "final-drop"))]) + [final]
        parsed.append((sc, obs, sched.split()[1:], status))
        dtext.append("\n".join([l for l in sc if not l.startswith("schedule")] + ["schedule " + " ".join(sched.split()[1:])]))
    mout = core.run_driver("channel", "\n---\n".join(dtext) + "\n---\n", timeout=900)
    mblocks = split_blocks(mout)
    res = []
    for (sc, obs, sched, status), mb in zip(parsed, mblocks):
        mobs = [l for l in mb if not l.startswith("END")]
        mend = next((l for l in mb if l.startswith("END")), "END ?")
        res.append({"scenario": sc, "impl": obs, "model": mobs, "schedule": sched, "status": status, "model_end": mend})
    return res


# ------------------------------------------------------------------ monitors
LINE = re.compile(r"^t(\d+) (.*)$")
CAS = re.compile(r"cas_weak (\w+) (\d+)->(\d+) = (ok|fail) (\d+) @(\w+)#2:(\w+)/(\w+)")
LOAD = re.compile(r"load (\w+) = (\d+) @(\w+)#1:(\w+)")


def digits(v):
    out = []
    for _ in range(5):
        d = v & 7
        if d == 0:
            break
        out.append(d); v >>= 3
    return out


def acq(o):
    return o in ("Acquire", "AcqRel", "SeqCst")


def rel(o):
    return o in ("Release", "AcqRel", "SeqCst")


def monitors(scenario, trace, status):
    # C03 gets the part of C08 that concerns `send`, the operation a signal handler runs
    probs = {"C06": [], "C07": [], "C08": [], "C03": []}
    nested_host = {}
    for l in scenario:
        w = l.split()
        if len(w) >= 3 and w[1] == "nested":
            nested_host[int(w[0][1:])] = int(w[2][1:])
    fifo = []                    # tags whose send has taken effect, in order
    cell_tag = {}                # slot -> tag written
    holding = {}                 # tid -> (slot, role)
    cur = {}                     # tid -> dict(op, tag, steps, fails)
    popped = {}                  # tid -> tag the abstract FIFO handed to this recv
    sent, received, dropped = set(), [], {}
    outstanding = 0              # values sent/being sent and not yet completely received
    # vector clocks for the declared orderings
    clocks, locclk, cellep = {}, {"full": {}, "empty": {}}, {}
    def clk(t):
        if t not in clocks:
            clocks[t] = dict(clocks.get(nested_host.get(t), {})) if t in nested_host else {}
            clocks[t][t] = clocks[t].get(t, 0) + 1
        return clocks[t]
    def join(a, b):
        for k, v in b.items():
            if a.get(k, 0) < v:
                a[k] = v
    for i, l in enumerate(trace):
        m = LINE.match(l)
        if not m:
            continue
        tid, body = int(m.group(1)), m.group(2)
        c = clk(tid)
        if body.startswith("call send"):
            cur[tid] = {"op": "send", "tag": int(body.split()[2]), "steps": 0, "fails": 0}
            sent.add(int(body.split()[2]))
            continue
        if body.startswith("call recv"):
            cur[tid] = {"op": "recv", "steps": 0, "fails": 0}
            continue
        if body.startswith("PANIC"):
            probs["C08"].append("step %d: t%d panicked: %s" % (i, tid, body[6:]))
            if cur.get(tid, {}).get("op") == "send":
                probs["C03"].append("step %d: a send (what a delivery runs) on t%d panicked: %s" % (i, tid, body[6:]))
            continue
        if body.startswith("RACE"):
            probs["C07"].append("step %d: t%d accesses a cell without happens-before to its previous access (model view check)" % (i, tid))
            continue
        if body.startswith("drop "):
            tg = int(body.split()[1])
            dropped[tg] = dropped.get(tg, 0) + 1
            if dropped[tg] > 1:
                probs["C07"].append("step %d: value %d dropped twice" % (i, tg))
            continue
        st = cur.get(tid)
        if st is None:
            continue
        c[tid] = c.get(tid, 0) + 1
        mm = LOAD.search(body)
        if mm:
            st["steps"] += 1
            loc, v, fn = mm.group(1), int(mm.group(2)), mm.group(3)
            st["last_read"] = (loc, v, fn)
            continue
        mm = CAS.search(body)
        if mm:
            st["steps"] += 1
            loc, exp, new, ok, seen, fn, so, fo = mm.group(1), int(mm.group(2)), int(mm.group(3)), mm.group(4) == "ok", int(mm.group(5)), mm.group(6), mm.group(7), mm.group(8)
            if not ok:
                st["fails"] += 1
                st["last_read"] = (loc, seen, fn)
                continue
            if acq(so):
                join(c, locclk[loc])
            if rel(so):
                join(locclk[loc], c)
            if fn == "dequeue":
                slot = exp & 7
                holding[tid] = slot
                if loc == "empty":
                    outstanding += 1
                    if outstanding > 5:
                        probs["C06"].append("step %d: more than five values outstanding" % i)
                else:
                    if not fifo:
                        probs["C06"].append("step %d: recv on t%d dequeued slot %d although no sent value is untaken" % (i, tid, slot))
                    else:
                        popped[tid] = fifo.pop(0)
                        if cell_tag.get(slot) != popped[tid]:
                            probs["C06"].append("step %d: recv on t%d dequeued slot %d holding value %s, but the oldest untaken value is %d (reordered)" % (i, tid, slot, cell_tag.get(slot), popped[tid]))
            else:
                slot = holding.pop(tid, None)
                if loc == "full":
                    fifo.append(st.get("tag"))
                else:
                    outstanding -= 1
            continue
        if body.startswith("cellmod "):
            slot = int(body.split()[1][4:])
            if holding.get(tid) != slot:
                probs["C07"].append("step %d: t%d changes the contents of cell %d (%s) while it does not own that cell's index — nothing orders this access with the next owner's" % (i, tid, slot, body.split(None, 2)[2]))
            continue
        if body.startswith("cell "):
            st["steps"] += 1
            slot = int(body.split()[1][4:])
            if holding.get(tid) != slot:
                probs["C07"].append("step %d: t%d accesses cell %d without owning its index" % (i, tid, slot))
            ep = cellep.get(slot)
            if ep is not None and c.get(ep[0], 0) < ep[1]:
                probs["C07"].append("step %d: t%d accesses cell %d, but the previous access (t%d) does not happen-before it under the orderings the code passes (data race)" % (i, tid, slot, ep[0]))
            cellep[slot] = (tid, c[tid])
            if st["op"] == "send":
                cell_tag[slot] = st["tag"]
            continue
        if body.startswith("ret "):
            bound = 7 + 2 * st["fails"]
            if st["steps"] > bound:
                probs["C08"].append("step %d: %s on t%d took %d own steps with %d failed CAS (bound %d)" % (i, st["op"], tid, st["steps"], st["fails"], bound))
                if st["op"] == "send":
                    probs["C03"].append(probs["C08"][-1])
            if body.startswith("ret recv some"):
                tg = int(body.split()[3])
                received.append(tg)
                if tg not in sent:
                    probs["C06"].append("step %d: recv returned %d which was never sent" % (i, tg))
                if received.count(tg) > 1:
                    probs["C06"].append("step %d: value %d received twice" % (i, tg))
                if popped.get(tid) != tg:
                    probs["C06"].append("step %d: recv on t%d returned %d but the oldest untaken value was %s" % (i, tid, tg, popped.get(tid)))
                popped.pop(tid, None)
            elif body == "ret recv none":
                lr = st.get("last_read")
                if lr and lr[1] & 7 != 0:
                    probs["C06"].append("step %d: recv reported empty after reading a non-empty queue" % i)
            elif body == "ret send":
                pass
            # a send that found no free slot drops its value: then five must be outstanding
            if st["op"] == "send" and st.get("last_read") and st["last_read"][0] == "empty" and st["last_read"][1] & 7 == 0 and st["last_read"][2] == "dequeue":
                if outstanding < 5:
                    probs["C06"].append("step %d: send of %d on t%d was discarded with only %d values outstanding" % (i, st["tag"], tid, outstanding))
            cur.pop(tid, None)
            # a nested handler returning: its host continues after it (join)
            if tid in nested_host:
                join(clk(nested_host[tid]), c)
            continue
    for tid, st in cur.items():
        bound = 7 + 2 * st["fails"]
        if st["steps"] > bound:
            probs["C08"].append("%s on t%d has taken %d own steps (%d failed CAS, bound %d) without returning: it waits for another operation to make progress%s" % (
                st["op"], tid, st["steps"], st["fails"], bound,
                " - the one it interrupted, which cannot run before this one returns" if tid in nested_host else ""))
            if st["op"] == "send":
                probs["C03"].append(probs["C08"][-1])
    if not status.startswith("END done"):
        probs["C08"].append("scenario did not run to completion: %s" % status)
        if any(st["op"] == "send" for st in cur.values()):
            probs["C03"].append("scenario did not run to completion with a send unfinished: %s" % status)
    fin = next((l for l in trace if l.startswith("final-drop")), None)
    if fin is not None and "?" not in fin:
        for tg in [int(x) for x in fin[fin.index("[") + 1:fin.index("]")].split(",") if x]:
            dropped[tg] = dropped.get(tg, 0) + 1
        if not probs["C08"]:
            for tg in sorted(sent):
                if dropped.get(tg, 0) != 1:
                    probs["C07"].append("value %d was dropped %d times over the whole run incl. the channel's drop (exactly once expected)" % (tg, dropped.get(tg, 0)))
    return probs


# ------------------------------------------------------------------ the real channel under Miri


def miri_run(seeds, per=12, timeout=1500):
    """run harness-miri (the real Channel, std atomics as declared, no shim) under Miri's C11 interpreter with
    weak-memory emulation and the data-race detector, for a range of scheduler seeds; returns (ok, text)"""
    import os, subprocess
    d = os.path.join(core.VERIF, "harness-miri")
    lock = os.path.join(core.REPO, "Cargo.lock")
    if os.path.exists(lock):
        import shutil
        shutil.copyfile(lock, os.path.join(d, "Cargo.lock"))
    env = dict(os.environ)
    env["MIRIFLAGS"] = "-Zmiri-many-seeds=%s -Zmiri-preemption-rate=0.2" % seeds
    env["CARGO_NET_OFFLINE"] = "true"
    env.pop("RUSTFLAGS", None)
    p = subprocess.run(["cargo", "+nightly", "miri", "run", "--offline", "--quiet", "--", "all", str(per)], cwd=d, env=env,
                       capture_output=True, text=True, timeout=timeout)
    text = p.stdout + p.stderr
    return p.returncode == 0 and "error" not in p.stdout, text


def miri_classify(text):
    """which property a Miri failure speaks about, and one line of it"""
    line = next((l.strip() for l in text.splitlines() if l.startswith("error: Undefined Behavior")), None)
    if line:
        return "C07", line[:300]
    pan = next((l.strip() for l in text.splitlines() if "panicked at" in l), None)
    nxt = ""
    ls = text.splitlines()
    for i, l in enumerate(ls):
        if "panicked at" in l and i + 1 < len(ls):
            nxt = ls[i + 1].strip()
            break
    msg = ((pan or "") + " " + nxt).strip()[:300]
    if "received twice" in msg or "never sent" in msg or "out of order" in msg:
        return "C06", msg
    if "dropped" in msg:
        return "C07", msg
    if pan:
        return "C08", msg
    return "?", (next((l.strip() for l in ls if l.startswith("error")), "miri run failed") )[:300]


def miri_stage(pid, tier):
    """returns (evaluations, failures, note)"""
    nseeds = 6 if tier == "quick" else 48
    try:
        ok, text = miri_run("0..%d" % nseeds)
    except Exception as e:   # the tool is not there, or timed out: say so, do not guess
        return 0, [], "miri stage not run: %s" % (str(e)[:120])
    if ok:
        return nseeds, [], "%d scheduler seeds clean" % nseeds
    if "Undefined Behavior" not in text and "panicked at" not in text:
        return 0, [], "miri stage not run: %s" % " ".join(text.split())[-200:]
    # find the first failing seed, for the replay
    seed = None
    for k in range(nseeds):
        ok1, t1 = miri_run("%d..%d" % (k, k + 1))
        if not ok1:
            seed, text = k, t1
            break
    who, line = miri_classify(text)
    f = {"kind": "violation" if who in (pid, "?") else "disagreement", "key": "%s:miri" % pid,
         "what": "the real Channel under Miri (C11 interpreter, weak-memory emulation, seed %s): %s" % (seed, line),
         "payload": {"miri": True, "seed": seed, "text": text[-3000:],
                     "replay_cmd": "cd /verif/harness-miri && MIRIFLAGS='-Zmiri-seed=%s -Zmiri-preemption-rate=0.2' cargo +nightly miri run --offline -- all 12" % seed}}
    return nseeds, [f], "failing seed %s" % seed
