"""Iterator back-end step scenarios (L8): generator, runner, monitors (C09, C10, C11)."""
import re
from . import core

SIGS = [10, 12, 14, 15, 34, 63, 64]


def gen_batches(rng):
    """two (or three) batches handed out by `pending()` earlier are drained concurrently by different
    threads while deliveries happen: `Pending` owns a reference to the slots, not to the instance"""
    watch = rng.sample([10, 12, 14, 15], rng.randint(1, 2))
    n = rng.choice([2, 2, 3])
    lines = ["setup watch " + " ".join(str(s) for s in watch), "setup style A", "setup batches %d" % n]
    tid = 0
    for _ in range(rng.randint(1, 2)):
        for _ in range(rng.randint(1, 3)):
            lines.append("t%d deliver %d" % (tid, rng.choice(watch)))
        tid += 1
    for k in range(n):
        lines.append("t%d drain %d" % (tid, k)); tid += 1
    lines.append("seed %d" % rng.randint(1, 2**31))
    lines.append("maxsteps 30000")
    return lines


def gen_scenario(rng, profile="mixed"):
    if profile == "ownerdrop":
        return gen_owner_drop(rng)
    if profile == "mixed" and rng.random() < 0.12:
        return gen_batches(rng)
    watch = rng.sample(SIGS, rng.randint(1, 3))
    style = rng.choice("AB") if profile != "close" else "B"
    lines = ["setup watch " + " ".join(str(s) for s in watch), "setup style " + style]
    if rng.random() < (0.5 if profile == "handler" else 0.15):
        lines.append("setup fill")
    tid = 0
    for _ in range(rng.randint(1, 2)):
        for _ in range(rng.randint(1, 4)):
            lines.append("t%d deliver %d" % (tid, rng.choice(watch)))
        tid += 1
    # the consumer
    nops = rng.randint(2, 4)
    ops = []
    for _ in range(nops):
        if style == "A":
            ops.append(rng.choice(["wait", "pending", "wait"]))
        else:
            ops.append(rng.choice(["poll", "poll", "poll", "forever"] if profile == "close" else ["poll", "poll", "poll", "poll"]))
    if profile == "close" and style == "B" and "forever" not in ops and rng.random() < 0.5:
        ops.append("forever")
    if "forever" in ops:
        ops = ops[:ops.index("forever") + 1]
    for o in ops:
        lines.append("t%d %s" % (tid, o))
    consumer = tid
    tid += 1
    if profile == "adders":
        # several handle clones adding the same not-yet-watched signals at the same time
        extra = [s for s in (40, 41, 42) if s not in watch]
        for _ in range(rng.randint(2, 3)):
            for sg in rng.sample(extra, rng.randint(1, 2)):
                lines.append("t%d add %d" % (tid, sg))
            tid += 1
    need_close = profile == "close" or "forever" in ops or rng.random() < 0.3
    if need_close:
        for _ in range(rng.randint(1, 2)):
            lines.append("t%d close" % tid)
        tid += 1
    lines.append("seed %d" % rng.randint(1, 2**31))
    lines.append("maxsteps 30000")
    return lines


def gen_owner_drop(rng):
    """every owner of the instance goes away (`dropall`) while deliveries of its signals are in progress on other
    threads - one of them parked after a few of its own steps (after it has got hold of whatever it needs, before
    it has used it) until the drop is over: whatever the actions captured - the write end of the self-pipe first
    of all - is released by the dropping thread, never by a thread that is inside a delivery"""
    watch = rng.sample(SIGS[:4], rng.randint(1, 2))
    lines = ["setup watch " + " ".join(str(s) for s in watch), "setup style " + rng.choice("AB")]
    tid = 0
    for _ in range(rng.randint(1, 2)):
        for _ in range(rng.randint(1, 3)):
            lines.append("t%d deliver %d" % (tid, rng.choice(watch)))
        tid += 1
    lines.append("t%d dropall" % tid)
    j = rng.randint(3, 11)
    lines.append("holdat t0 %d 600" % j)
    lines.append("delay t%d %d" % (tid, j + rng.randint(0, 3)))
    lines.append("seed %d" % rng.randint(1, 2**31))
    lines.append("maxsteps 30000")
    return lines


def pending_window_sweep(rng):
    """a delivery that happens entirely while the poller is parked after its j-th own step, for every j of a
    `poll_signal` call that is going to answer `Pending`: between the callback's "nothing there" and the return -
    whatever the call still does after the callback must not eat the wake-up byte of that delivery"""
    out = []
    for j in range(1, 12):
        for extra in (0, 1):
            lines = ["setup watch 10", "setup style B", "t0 deliver 10", "t1 poll", "t1 poll", "t1 poll",
                     "holdat t1 %d %d" % (129 + j, 129 + j + 80), "delay t0 %d" % (129 + j)]
            if extra:
                lines.insert(3, "t0 deliver 10")
            out.append(lines + ["seed %d" % rng.randint(1, 2**31), "maxsteps 30000"])
    return out


def close_park_sweep(rng):
    """close() runs to completion while a blocking consumer is parked after each of the own steps that lead up to
    its blocking read: whatever close() decides to do must not depend on having seen the consumer "already
    waiting" - a consumer that looked at the closed flag just before must still be woken"""
    out = []
    for j in range(128, 135):
        out.append(["setup watch 10", "setup style B", "t0 forever", "t1 close", "delay t1 %d" % j, "holdat t0 %d %d" % (j, j + 60),
                    "seed %d" % rng.randint(1, 2**31), "maxsteps 30000"])
    for j in range(1, 5):
        out.append(["setup watch 10", "setup style A", "t0 wait", "t1 close", "delay t1 %d" % j, "holdat t0 %d %d" % (j, j + 60),
                    "seed %d" % rng.randint(1, 2**31), "maxsteps 30000"])
    return out


def close_window_sweep(rng):
    """a poller whose call loops twice - a wake-up byte left over from a signal that was already collected out of
    the open batch makes the callback answer `readable` for an empty batch - with close() landing at every point
    of the second round: between the loop's own look at the closed flag and `poll_pending`'s"""
    out = []
    for d1 in range(6, 40, 6):
        for d2 in range(140, 460, 16):
            out.append(["setup watch 10", "setup style B", "t0 deliver 10", "t1 deliver 10", "t2 poll", "t2 poll", "t2 poll", "t2 poll",
                        "t3 close", "delay t1 %d" % d1, "delay t3 %d" % d2, "seed %d" % rng.randint(1, 2**31), "maxsteps 30000"])
    return out


EVENT = re.compile(r"^t(\d+) (H )?(load|store|cas|sys|cb) ")


def is_registry(l):
    return " data." in l or " fallback." in l


def run_one(scenario):
    text = "\n".join(scenario) + "\n"
    rc, out, err = core.run_harness("iterconc", text, timeout=15)
    if rc != 0 or not out:
        return {"scenario": scenario, "impl": out, "model": [], "schedule": [], "status": "END crash rc=%d %s" % (rc, err[-200:]), "model_end": "END ?"}
    cap = out[0].split()
    status = next((l for l in out if l.startswith("END")), "END ?")
    leaked = next((l for l in out if l.startswith("LEAKED")), "LEAKED []")
    full = [l for l in out[1:] if not l.startswith(("SCHEDULE", "END", "LEAKED"))]
    obs = []
    for l in full:
        if is_registry(l) or "HEAP-IN-HANDLER" in l or "WOULD-BLOCK" in l:
            continue
        if " mutex_" in l or " call add" in l or " ret add" in l:
            continue   # add_signal through a handle clone: its steps are not part of the L8 model
        body = l.split(None, 1)[1] if " " in l else ""
        if body.startswith("H "):
            body = body[2:]
        if body.split(" ")[0] in ("alloc", "free", "spin", "yield_now", "drop-action") or body == "yield" or body.startswith("sys sigaction"):
            continue   # registry steps of an add_signal
        w = l.split()
        if len(w) > 1 and w[1] == "ret" and w[2] == "done":
            # a delivery's `ret` is logged after the (filtered) registry release steps: attach it to the
            # thread's last kept line
            k = len(obs)
            while k > 0 and obs[k - 1].split()[0] != w[0]:
                k -= 1
            obs.insert(k if k > 0 else len(obs), l)
        else:
            obs.append(l)
    # `call` lines are logged when the thread gets there: attach to the thread's next kept line
    canon, pending = [], {}
    for l in obs:
        w = l.split()
        if len(w) > 1 and w[1] == "call":
            pending[w[0]] = l
            continue
        if w[0] in pending:
            canon.append(pending.pop(w[0]))
        canon.append(l)
    unstarted = sorted(pending.values())
    sched = [m.group(1) for m in (EVENT.match(l) for l in canon) if m]
    dtext = "\n".join([l for l in scenario if not l.startswith("schedule") and " add " not in l] +
                      ["cap %s prefill %s" % (cap[1], cap[3]), "schedule " + " ".join(sched), "---"]) + "\n"
    mout = core.run_driver("iter", dtext, timeout=120)
    mobs = [l for l in mout if not l.startswith("END") and l != "---"]
    mend = next((l for l in mout if l.startswith("END")), "END ?")
    # the harness reports a consumer blocked for ever as deadlock; the model as blocked
    st = status.replace("END deadlock", "END blocked")
    if any(l.endswith(" dropall") for l in scenario):
        # dropping the owners is not part of the L8 model: these runs are judged by the monitors alone
        mobs, mend = canon, st
    return {"scenario": scenario, "impl": canon, "model": mobs, "schedule": sched, "status": st, "model_end": mend,
            "cap": int(cap[1]), "prefill": int(cap[3]), "unstarted": unstarted, "full": full, "leaked": leaked}


HLINE = re.compile(r"^t(\d+) H (.*)$")


def monitor_c03(r):
    """every step a delivery takes (registry read sections + the iterator's action) is async-signal-safe"""
    probs = []
    if r["status"].startswith("END crash"):
        probs.append("the scenario hung or crashed (%s): a delivery may be blocked inside the signal handler" % r["status"])
    steps = {}
    for i, l in enumerate(r.get("full", [])):
        if "WOULD-BLOCK" in l and " H " in l:
            probs.append("step %d: `%s` — a blocking write on a full self-pipe inside the signal handler (it would wait for another thread)" % (i, l))
        if "HEAP-IN-HANDLER" in l:
            probs.append("step %d: heap allocation/release inside the signal handler (%s)" % (i, l))
        m = HLINE.match(l)
        if not m:
            continue
        body = m.group(2)
        kind = body.split()[0]
        steps[m.group(1)] = steps.get(m.group(1), 0) + 1
        if kind in ("load", "fetch_add", "fetch_sub", "store", "prev", "run"):
            continue
        if kind == "sys" and body.split()[1] in ("send", "write") and ("dontwait" in body or "nonblock-fd" in body):
            continue
        probs.append("step %d: the delivery performs `%s` inside the signal handler (a lock, allocation, wait or possibly blocking call)" % (i, body))
    return probs



def run_many(scenarios):
    return core.pmap(run_one, scenarios)


LINE = re.compile(r"^t(\d+) (H )?(.*)$")


def monitors(r):
    scenario, trace, status = r["scenario"], r["impl"], r["status"]
    probs = {"C09": [], "C10": [], "C11": [], "C03": monitor_c03(r), "C12": [], "C01": []}
    for i, l in enumerate(r.get("full", r["impl"])):
        if l.endswith(" H drop-write-end"):
            probs["C01"].append("line %d: the write end of the self-pipe, captured by the instance's actions, was released inside a signal handler (`%s`): by the thread running a delivery, not by the thread that dropped the instance" % (i, l))
            probs["C03"].append("line %d: a delivery released what the action captured (`%s`): it frees and closes inside the signal handler" % (i, l))
    if r.get("leaked", "LEAKED []") != "LEAKED []":
        probs["C12"].append("after the instance and all its handles were dropped, an action it registered is still in the registry and still runs: %s" % r["leaked"])
        probs["C01"].append("the object that owned the registrations was dropped (removal returned), yet an action it registered still runs and what it captured is not released: %s" % r["leaked"])
    watched = set()
    for l in scenario:
        if l.startswith("setup watch"):
            watched |= set(int(x) for x in l.split()[2:])
    pipe = r.get("prefill", 0)
    stored = {}            # sig -> number of stores (deliveries begun count as store here)
    begun = {}             # sig -> deliveries begun
    yielded = {}
    unreported = {}        # sig -> wake done?
    closed_stored = False
    close_done = False
    consulted = {}         # tid -> last callback answer in the current poll call
    cur_call = {}
    after_close_steps = {}
    for i, l in enumerate(trace):
        m = LINE.match(l)
        if not m:
            continue
        tid, inh, body = int(m.group(1)), bool(m.group(2)), m.group(3)
        if body.startswith("call "):
            cur_call[tid] = body[5:]
            consulted[tid] = None
            if body.startswith("call deliver"):
                sg = int(body.split()[2]); begun[sg] = begun.get(sg, 0) + 1
            continue
        if body.startswith("store slot"):
            sg = int(body.split()[1][4:])
            stored[sg] = stored.get(sg, 0) + 1
            unreported[sg] = False
            want = int(cur_call.get(tid, "x 0").split()[1]) if cur_call.get(tid, "").startswith("deliver") else None
            if want is not None and sg != want:
                probs["C10"].append("step %d: delivery of %d stored into the slot of signal %d" % (i, want, sg))
        elif body.startswith("sys send"):
            ok = body.endswith("= 1")
            if "BLOCKING" in body:
                probs["C09"].append("step %d: wake-up write without MSG_DONTWAIT inside %s" % (i, cur_call.get(tid)))
            if ok:
                pipe += 1
            call = cur_call.get(tid, "")
            if call.startswith("deliver"):
                sg = int(call.split()[1])
                if sg in unreported:
                    unreported[sg] = True
                elif stored.get(sg, 0) == 0:
                    probs["C09"].append("step %d: delivery of %d woke the pipe before storing the signal" % (i, sg))
            if call == "close":
                close_done = True
                if not closed_stored:
                    probs["C11"].append("step %d: close() woke the readers before setting the closed flag" % i)
        elif body.startswith("store closed"):
            closed_stored = True
        elif body.startswith("load closed"):
            v = body.split()[3] == "1"
            if closed_stored and not v:
                probs["C11"].append("step %d: is_closed() is false after close() had set it" % i)
        elif body.startswith("sys recv"):
            n = int(body.split("=")[-1])
            if n > 0:
                pipe -= n
        elif body.startswith("cb "):
            ans = body.split()[2] == "true"
            consulted[tid] = ans
            if ans:
                pipe -= 1
        elif body == "ret done" and cur_call.get(tid, "") == "close":
            close_done = True
        elif body == "ret done" and cur_call.get(tid, "").startswith("deliver"):
            # the delivery has returned: whatever it does to announce itself has been done
            sg = int(cur_call[tid].split()[1])
            if sg in unreported:
                unreported[sg] = True
        elif body.startswith("yield "):
            sg = int(body.split()[1])
            yielded[sg] = yielded.get(sg, 0) + 1
            if sg not in watched:
                probs["C10"].append("step %d: the iterator yielded signal %d which it was not asked to watch" % (i, sg))
            if yielded[sg] > begun.get(sg, 0):
                probs["C10"].append("step %d: signal %d yielded %d times but only %d deliveries of it had begun" % (i, sg, yielded[sg], begun.get(sg, 0)))
            unreported.pop(sg, None)
        elif body.startswith("ret poll pending"):
            if consulted.get(tid) is not False:
                probs["C11"].append("step %d: poll_signal returned Pending although its readiness callback %s during this call: the caller has no armed wake-up" % (
                    i, "was not consulted" if consulted.get(tid) is None else "last answered `something is available`"))
            # parked as pending: nothing delivered-and-woken may be unreported with an empty pipe
            for sg, woke in unreported.items():
                if woke and pipe <= 0:
                    probs["C09"].append("step %d: the poller is parked as pending while signal %d is delivered and unreported and no wake-up byte is outstanding" % (i, sg))
    # a consumer blocked for ever on the pipe at the end of the schedule
    if status.startswith("END blocked"):
        for sg, woke in unreported.items():
            if woke and pipe <= 0:
                probs["C09"].append("the consumer is blocked on the self-pipe while signal %d is delivered and unreported and the pipe is empty (lost wake-up)" % sg)
        if close_done:
            probs["C11"].append("close() has completed but a consumer is still blocked: %s" % status)
    elif not status.startswith("END done"):
        probs["C11"].append("scenario did not finish: %s" % status)
    return probs
