"""C09 / C10 / C11: iterator back-end step correspondence and monitors."""
from . import core, it
from .runner import PropCheck


GOOD = [1, 2, 10, 12, 14, 15, 17, 34, 64]
REFUSED = [9, 19, 4, 8, 11, -1, 128, 1000, 65, 0, 32]


def live_histories(rng, n):
    """one instance: `new`, then add_signal calls (on the instance / a handle clone; valid, repeated, refused) and
    real deliveries (`check s` raises s and looks at what the instance yields), in every order - in particular
    deliveries of a signal added after a refused call, above and below everything watched before"""
    blocks = []
    for exf in ("only", "raw"):
        for bad in (9, 65, 128):
            for how in ("add", "hadd"):
                blocks.append(["new %s 10" % exf, "check 10", "%s %d" % (how, bad), "%s 12" % how, "check 10", "check 12", "check 12"])
                blocks.append(["new %s 12" % exf, "%s %d" % (how, bad), "%s 10" % how, "check 10", "check 12"])
                blocks.append(["new %s 10" % exf, "%s %d" % (how, bad), "check 10", "%s 34" % how, "%s %d" % (how, bad), "%s 64" % how, "check 64", "check 34", "check 10"])
    for _ in range(n):
        first = rng.sample(GOOD, rng.randint(1, 2))
        b = ["new %s %s" % (rng.choice(["only", "raw"]), " ".join(str(x) for x in first))]
        watched = list(first)
        for _ in range(rng.randint(3, 9)):
            r = rng.random()
            if r < 0.25:
                b.append("%s %d" % (rng.choice(["add", "hadd"]), rng.choice(REFUSED)))
            elif r < 0.5:
                x = rng.choice(GOOD); b.append("%s %d" % (rng.choice(["add", "hadd"]), x)); watched.append(x)
            else:
                b.append("check %d" % rng.choice(watched))
        b.append("check %d" % watched[-1])
        blocks.append(b)
    return blocks


def monitor_history(block, impl):
    probs = []
    ex = next((l for l in impl if l.startswith("exit")), "exit ?")
    if ex != "exit continues":
        return []          # a process that dies is C12's / C14's business
    watched, alive, refused = set(), False, None
    for op, res in zip(block, impl):
        w = op.split()
        if w[0] == "new":
            alive = res.startswith("ok")
            watched = set(int(x) for x in w[2:]) if alive else set()
        elif w[0] in ("add", "hadd") and alive:
            if res.startswith("ok"):
                watched.add(int(w[1]))
            else:
                refused = op
        elif w[0] == "check" and alive and res.startswith("flag=") and int(w[1]) in watched:
            n = int(w[1])
            if "flag=true" in res and "yielded=[%d]" % n not in res:
                probs.append("history `%s`: signal %d is watched by the live instance and was delivered (an independent flag saw it), but the instance did not yield it%s: `%s`" % (
                    "; ".join(block), n, (" (an earlier `%s` had been refused)" % refused) if refused else "", res))
    return probs


class IterCheck(PropCheck):
    pid = "C09"
    prop_module = "SigHook.Props.C09"
    profile = "mixed"
    assumptions = [
        "sequential consistency: `closed` and the SignalOnly slots are SeqCst (checked from the regenerated orderings); DRF-SC trusted",
        "the self-pipe is a byte counter: a wake on a full pipe is lost (EAGAIN), recv drains up to 1024 bytes; capacity measured on an identical socket pair each run",
        "readiness callbacks: blocking = a one-byte read enabled iff a byte is present; non-blocking = `false` arms a notification that fires when a byte is present (contract of mio/tokio/async-io; exercised against the real libraries by the operation-level front-end probes, not modelled further)",
        "deliveries are simulated calls of the real dispatcher running the instance's real action; registry steps are filtered out of these traces (covered by C01-C04)",
    ]

    def problems(self, r):
        return it.monitors(r).get(self.pid, [])

    def correspond(self, tier, seed, rng):
        n = 250 if tier == "quick" else 12000
        scenarios = [it.gen_scenario(rng, self.profile) for _ in range(n)]
        if self.pid == "C11":
            scenarios += it.close_window_sweep(rng)
            scenarios += it.close_park_sweep(rng)
        if self.pid == "C09":
            scenarios += it.pending_window_sweep(rng)
        results = it.run_many(scenarios)
        def differs(r):
            return core.first_diff(r["model"] + [r["model_end"]], r["impl"] + [r["status"]]) is not None
        if any(differs(r) for r in results) and not any(self.problems(r) for r in results):
            shapes = [r["scenario"] for r in results if differs(r)][:40]
            extra = []
            for k in range(1500 if tier == "quick" else 15000):
                sc = [l for l in shapes[k % len(shapes)] if not l.startswith("seed")]
                extra.append(sc[:-1] + ["seed %d" % rng.randint(1, 2**31)] + sc[-1:])
            results += it.run_many(extra)
        failures, dist, distinct, nontrivial, steps = [], {}, set(), 0, 0
        for r in results:
            steps += len(r["impl"])
            key = core.digest([r["scenario"][:-2], r["schedule"]])
            if key not in distinct:
                distinct.add(key)
                if any(" yield " in l for l in r["impl"]):
                    nontrivial += 1
            dist["end:" + r["status"].split(" (")[0]] = dist.get("end:" + r["status"].split(" (")[0], 0) + 1
            for tag in ("yield", "cb block", "cb nonblock true", "cb nonblock false", "ret poll pending", "ret poll closed", "ret poll signal", "= -1"):
                c = sum(1 for l in r["impl"] if tag in l)
                if c:
                    dist[tag] = dist.get(tag, 0) + c
            probs = self.problems(r)
            d = core.first_diff(r["model"] + [r["model_end"]], r["impl"] + [r["status"]])
            payload = {"scenario": r["scenario"], "schedule": r["schedule"], "impl": r["impl"][-80:], "model": r["model"][-80:]}
            if probs:
                failures.append({"kind": "violation", "key": "%s:it:%s" % (self.pid, core.digest(probs[0].split(":")[-1][:60])),
                                 "what": "iterator schedule (%d steps): %s" % (len(r["schedule"]), probs[0]), "payload": payload})
            elif d is not None:
                failures.append({"kind": "disagreement", "key": self.pid + ":itdiff",
                                 "what": "iterator step trace differs from the model at line %d: model `%s` vs implementation `%s`" % d, "payload": payload})
        # queueing exfiltrator (WithRawSiginfo: one channel per signal; several records of one signal
        # can be queued): scheduled runs on the real code judged by the monitors alone
        nq = 0
        if self.pid in ("C09", "C10") and self.profile == "mixed":
            from . import itq
            qs = [itq.gen_scenario(rng) for _ in range(200 if tier == "quick" else 10000)]
            # those without add_signal are also run in lock-step with the L8q model (Model/IterQ.lean): every
            # decisive load / CAS of the per-signal channels, the closed flag, the pipe calls, the callbacks
            ls = [sc for sc in qs if not any(" add " in l for l in sc)]
            for r in core.pmap(itq.lockstep, ls):
                d = core.first_diff(r["model"] + [r["model_end"]], r["impl"] + [r["status"]])
                dist["queue:lockstep"] = dist.get("queue:lockstep", 0) + 1
                dist["queue:lockstep-drops"] = dist.get("queue:lockstep-drops", 0) + sum(1 for l in r["impl"] if l.endswith(" drop"))
                steps += len(r["impl"])
                if r["problems"]:
                    failures.append({"kind": "violation", "key": "%s:itqls:%s" % (self.pid, core.digest(r["problems"][0][:40])),
                                     "what": "iterator (queueing exfiltrator): %s" % r["problems"][0],
                                     "payload": {"scenario": r["scenario"], "schedule": r["schedule"], "impl": r["impl"][-80:], "queue": True}})
                elif d is not None:
                    failures.append({"kind": "disagreement", "key": self.pid + ":itqdiff",
                                     "what": "iterator (queueing exfiltrator) abstract step trace differs from the L8q model at line %d: model `%s` vs implementation `%s`" % d,
                                     "payload": {"scenario": r["scenario"], "schedule": r["schedule"], "impl": r["impl"][-80:], "model": r["model"][-80:], "queue": True, "lockstep": True}})
            for r in itq.run_many(qs):
                nq += 1
                qp = itq.monitors(r).get(self.pid, [])
                dist["queue:end:" + r["status"].split()[1]] = dist.get("queue:end:" + r["status"].split()[1], 0) + 1
                dist["queue:yields"] = dist.get("queue:yields", 0) + sum(1 for l in r["impl"] if " yield " in l)
                if qp:
                    failures.append({"kind": "violation", "key": "%s:itq:%s" % (self.pid, core.digest(qp[0].split(":")[-1][:40])),
                                     "what": "iterator (queueing exfiltrator) schedule (%d steps): %s" % (len(r["schedule"]), qp[0]),
                                     "payload": {"scenario": r["scenario"], "schedule": r["schedule"], "impl": r["impl"][-80:], "queue": True}})
        # C10 with the info-carrying exfiltrators rests on the per-signal channel handing records out
        # faithfully and in order. When an obligation about it no longer checks (e.g. the regenerated
        # order of `Channel::recv`'s calls), search with real concurrency: the window of such changes
        # often has no atomic operation inside, so no scheduling point either.
        if self.pid == "C10" and (tier != "quick" or getattr(self, "proof_broken", None)) and not any(f["kind"] == "violation" for f in failures):
            import subprocess
            p = subprocess.run([core.HARNESS_BIN, "channel-stress", "1500" if tier == "quick" else "6000"], capture_output=True, text=True, timeout=120)
            stress = p.stdout.splitlines()
            dist["stress"] = stress[0] if stress else "no output (exit %d)" % p.returncode
            sprobs = [l[8:] for l in stress if l.startswith("PROBLEM ")]
            mine = [x for x in sprobs if any(w in x for w in ("reordered", "duplicated", "leaked", "panicked"))]
            if p.returncode != 0 and not mine:
                mine = ["stress run died with exit status %d" % p.returncode]
            if mine:
                failures.append({"kind": "violation", "key": "C10:stress",
                                 "what": "records handed through the per-signal channel of the info-carrying exfiltrators are not the delivered ones in order (unscheduled stress run, sends nested in a real SIGUSR1 handler): " + "; ".join(mine[:3]),
                                 "payload": {"stress": stress, "queue": False, "replay_cmd": "harness/target/debug/sighook-harness channel-stress 1500"}})
        # the front ends themselves (Signals::pending / wait / forever, mio readiness, the tokio and
        # async-std streams and their wakers), driven by real raise() and compared with L8 run sequentially
        nfe = 0
        if self.profile == "mixed" or self.pid == "C11":
            from . import fe
            kinds = {"C09": ["signals", "mio", "tokio", "asyncstd"], "C10": ["signals", "mio"], "C11": ["tokio", "asyncstd", "signals"]}[self.pid]
            if not getattr(self, "_fe_done", False):
                nfe, fdist, ffail = fe.stage(self.pid, kinds, tier, rng)
                dist.update(fdist)
                failures += ffail
        # the origin-carrying exfiltrator: what `SignalsInfo<WithOrigin>` hands out for a real delivery (kill, raise,
        # sigqueue, a child's state change, a timer) must be what the record of that very delivery says - the
        # by-hand reading of the raw siginfo_t the harness captured in its own handler, through the Lean spec
        if self.pid == "C10":
            from . import c17
            rops = ["real " + m for m in c17.MECHS] * (1 if tier == "quick" else 5)
            rc_, rimpl, err_ = core.run_harness("origin", "\n".join(rops) + "\n")
            dist["origin-exfiltrator-deliveries"] = len(rimpl)
            for o, l in zip(rops, rimpl):
                parts = l.split(" | ")
                if len(parts) != 3:
                    continue
                raw = [int(x) for x in parts[0].split()[1:]]
                spec = core.run_driver("origin", "ex %d %d %d %d\n" % tuple(raw))[0].split(" | spec ")[1]
                if parts[1] != spec:
                    failures.append({"kind": "violation", "key": "C10:origin:" + o.split()[1],
                                     "what": "delivery via %s: the record handed out by the origin exfiltrator is `%s`, the information of that delivery (raw siginfo %s) is `%s`: not a faithful copy" % (o.split()[1], parts[1], raw, spec),
                                     "payload": {"origin": True, "ops": [o], "impl": [l]}})
        # histories of one live instance at the level of the public calls (forked children, real raise()): the watched
        # set grows through add_signal on the instance and on handles, some of those calls are refused (by panic or
        # by the OS); whatever is watched at the moment of a delivery must be yielded - whatever happened before
        nh = 0
        if self.pid == "C09":
            from . import c14
            hb = live_histories(rng, 60 if tier == "quick" else 3000)
            chunks = [hb[i::core.NPROC] for i in range(core.NPROC)]
            for ch, (ib, mb) in zip(chunks, core.pmap(c14.run_blocks, chunks)):
                for b, i, m in zip(ch, ib, mb):
                    nh += 1
                    i, m = c14.canon_impl(i), c14.canon_model(m)
                    probs = monitor_history(b, i)
                    dist["history:checks"] = dist.get("history:checks", 0) + sum(1 for o in b if o.startswith("check"))
                    dist["history:refused"] = dist.get("history:refused", 0) + sum(1 for l in i if l.startswith(("panic", "err")))
                    if probs:
                        failures.append({"kind": "violation", "key": "C09:history:" + core.digest(probs[0][:40]), "what": probs[0],
                                         "payload": {"history": True, "ops": b, "impl": i, "model": m}})
                    elif i != m:
                        d = core.first_diff(m, i)
                        failures.append({"kind": "disagreement", "key": "C09:historydiff",
                                         "what": "ops `%s`: model `%s` vs implementation `%s`" % ("; ".join(b), d[1], d[2]),
                                         "payload": {"history": True, "ops": b, "impl": i, "model": m}})
        uniq = {}
        for f in failures:
            uniq.setdefault(f["key"], f)
        return {"evaluations": len(results) + nq + nfe + nh, "distinct_nontrivial": nontrivial, "instance_histories": nh,
                "queue_exfiltrator_scenarios": nq, "frontend_blocks": nfe,
                "rule": "random scenarios on the real SignalDelivery / SignalIterator (SignalOnly): 1-2 delivery threads (simulated deliveries of watched signals through the real dispatcher and action), one consumer (style A: wait/pending; style B: poll_signal with a non-blocking callback / forever with a blocking one), optional close() threads, optionally a pre-filled self-pipe; PRNG schedule at every atomic operation, send/recv and callback; compared step by step with the Lean L8 model; monitors on the implementation trace; non-trivial = at least one signal yielded; for C09/C10 additionally scenarios with the queueing exfiltrator WithRawSiginfo (repeated deliveries of one signal, bursts beyond the channel's capacity, unique id per delivery and a byte pattern over the whole siginfo_t; those without add_signal are compared step by step with the Lean L8q model at the level of channel operation halves; all are judged by the property monitors: no record stranded when poll answers Pending or the consumer parks; every yielded record is one delivered record, once); plus operation-level probes of the front ends in forked children with real raise(): Signals::pending / wait / forever().next() (bursts whose wake-up bytes are multiples of the 16-byte has_signals chunk and beyond the 1024-byte flush), signal-hook-mio readiness under a real mio::Poll, signal-hook-tokio and signal-hook-async-std poll_next with a flag waker (Pending must be followed by a waker call once a signal arrives or close() is called), each compared with the L8 model run sequentially and judged by the monitors",
                "samples": [{"scenario": results[0]["scenario"], "trace": [l for l in results[0]["impl"] if " cas " not in l or "= ok" in l][:16]}] if results else [],
                "traces_validated_against_impl": len(results), "steps_compared": steps, "distribution": dist,
                "failures": list(uniq.values())}

    def replay(self, payload):
        if "stress" in payload:
            import subprocess
            p = subprocess.run([core.HARNESS_BIN, "channel-stress", "3000"], capture_output=True, text=True, timeout=120)
            return "PROBLEM" in p.stdout or p.returncode != 0, p.stdout
        if payload.get("history"):
            from . import c14
            ib, mb = c14.run_blocks([payload["ops"]])
            i, m = c14.canon_impl(ib[0]), c14.canon_model(mb[0])
            probs = monitor_history(payload["ops"], i)
            return bool(probs) or i != m, "ops: %s\nimpl:  %s\nmodel: %s\n%s" % ("; ".join(payload["ops"]), i, m, "\n".join(probs))
        if payload.get("frontend"):
            from . import fe
            return fe.replay(self.pid, payload)
        if payload.get("origin"):
            rc_, rimpl, err_ = core.run_harness("origin", "\n".join(payload["ops"]) + "\n")
            bad = False
            for l in rimpl:
                parts = l.split(" | ")
                if len(parts) == 3:
                    raw = [int(x) for x in parts[0].split()[1:]]
                    spec = core.run_driver("origin", "ex %d %d %d %d\n" % tuple(raw))[0].split(" | spec ")[1]
                    bad = bad or parts[1] != spec
            return bad, "\n".join(rimpl)
        if payload.get("lockstep"):
            from . import itq
            r = itq.lockstep(payload["scenario"])
            d = core.first_diff(r["model"] + [r["model_end"]], r["impl"] + [r["status"]])
            return d is not None or bool(r["problems"]), "\n".join(r["impl"][-60:] + [r["status"]] + r["problems"] + (["first difference to model: %s" % (d,)] if d else []))
        if payload.get("queue"):
            from . import itq
            r = itq.run_one([l for l in payload["scenario"] if not l.startswith("seed")] + ["schedule " + " ".join(payload["schedule"])])
            probs = itq.monitors(r).get(self.pid, [])
            return bool(probs), "\n".join(r["impl"][-60:] + [r["status"]] + probs)
        sc = [l for l in payload["scenario"] if not l.startswith("seed")]
        # replaying needs the unfiltered schedule, which is not kept: re-run the scenario under its seed
        r = it.run_one(payload["scenario"])
        probs = self.problems(r)
        d = core.first_diff(r["model"], r["impl"])
        return bool(probs) or d is not None, "\n".join(r["impl"][-60:] + [r["status"]] + probs + (["first difference to model: %s" % (d,)] if d else []))


class C09(IterCheck):
    pid = "C09"
    prop_module = "SigHook.Props.C09"
    extra_modules = ("SigHook.Props.C09q", "SigHook.Props.C09c", "SigHook.Props.C09qc", "SigHook.Props.C09d", "SigHook.Props.C09e", "SigHook.Props.C09qd", "SigHook.Props.C09qe")


class C10(IterCheck):
    pid = "C10"
    prop_module = "SigHook.Props.C10"
    extra_modules = ("SigHook.Props.C10q",)


class C11(IterCheck):
    pid = "C11"
    prop_module = "SigHook.Props.C11"
    extra_modules = ("SigHook.Props.C11b", "SigHook.Props.C11c", "SigHook.Props.C11d")

    def correspond(self, tier, seed, rng):
        res = super().correspond(tier, seed, rng)
        # the "Pending only with an armed wake-up" half of the property does not need close() at all:
        # also run the ordinary delivery / poll mixes (stale wake-up bytes, batches that overlap)
        class Mixed(IterCheck):
            pid = "C11"
            profile = "mixed"
        m = Mixed()
        m._fe_done = True
        m.proof_broken = getattr(self, "proof_broken", None)
        mres = m.correspond(tier, seed, rng)
        res["failures"] += mres["failures"]
        res["evaluations"] += mres["evaluations"]
        res["distinct_nontrivial"] += mres["distinct_nontrivial"]
        res["distribution"]["mixed_profile_scenarios"] = mres["evaluations"]
        uniq = {}
        for f in res["failures"]:
            uniq.setdefault(f["key"], f)
        res["failures"] = list(uniq.values())
        return res
    profile = "close"
