"""Shared pieces for the half-lock step-level correspondence (C01, C18)."""
import re
from . import core


def gen_scenario(rng, big=False):
    nthreads = rng.randint(2, 5 if big else 4)
    lines = []
    has_writer = False
    for t in range(nthreads):
        ncmd = rng.randint(1, 3)
        for _ in range(ncmd):
            if rng.random() < 0.45:
                st = rng.choice([1, 1, 1, 1, 1, 1, 2, 0])
                lines.append("t%d write %d" % (t, st)); has_writer = True
            else:
                lines.append("t%d read %d" % (t, rng.choice([0, 0, 1, 2])))
    if not has_writer:
        lines.append("t0 write 1")
    lines.append("seed %d" % rng.randint(1, 2**31))
    lines.append("maxsteps 600")
    return lines


def split_blocks(lines):
    blocks, cur = [], []
    for l in lines:
        if l.strip() == "---":
            blocks.append(cur); cur = []
        else:
            cur.append(l)
    if cur:
        blocks.append(cur)
    return blocks


def run_batch(scenarios):
    """run scenarios on the real half-lock, then replay each observed schedule on the model.
    returns list of (scenario, impl_lines, model_lines, schedule, status)"""
    iblocks = []
    crashes = 0
    todo = list(scenarios)
    while todo:
        text = "\n---\n".join("\n".join(s) for s in todo) + "\n---\n"
        rc, out, err = core.run_harness("halflock", text, timeout=300)
        abandoned = bool(out) and out[-1].strip() == "ABANDONED"
        if rc != 0:
            # the process died inside a scenario (e.g. the library's own `abort()`): the blocks
            # printed so far are complete (flushed one by one); the next scenario is the fatal one
            done = [b for b in split_blocks(out)]
            if out and out[-1].strip() != "---":
                done = done[:-1]
            crashes += 1
            if crashes > 40:
                raise core.Broken("halflock-harness", "exit %d in more than 40 scenarios: %s" % (rc, err[-300:]))
            iblocks += done + [["SCHEDULE", "END crash exit=%d %s" % (rc, " ".join(err.split())[-160:])]]
            todo = todo[len(done) + 1:]
            continue
        got = split_blocks(out[:-1] if abandoned else out)
        if not got:
            raise core.Broken("halflock-harness", "no output for %d scenarios" % len(todo))
        iblocks += got
        # a scenario that did not finish ends its process; the rest is run in a fresh one
        todo = todo[len(got):] if abandoned else []
    if len(iblocks) != len(scenarios):
        raise core.Broken("halflock-harness", "%d blocks for %d scenarios" % (len(iblocks), len(scenarios)))
    dtext = []
    parsed = []
    for sc, blk in zip(scenarios, iblocks):
        sched = next((l for l in blk if l.startswith("SCHEDULE")), "SCHEDULE")
        status = next((l for l in blk if l.startswith("END")), "END ?")
        obs = [l for l in blk if not l.startswith("SCHEDULE") and not l.startswith("END")]
        parsed.append((sc, obs, sched.split()[1:], status))
        dtext.append("\n".join([l for l in sc if not l.startswith("schedule")] + ["schedule " + " ".join(sched.split()[1:])]))
    mout = core.run_driver("halflock", "\n---\n".join(dtext) + "\n---\n", timeout=900)
    mblocks = split_blocks(mout)
    res = []
    for (sc, obs, sched, status), mb in zip(parsed, mblocks):
        mobs = [l for l in mb if not l.startswith("END")]
        mend = next((l for l in mb if l.startswith("END")), "END ?")
        res.append({"scenario": sc, "impl": obs, "model": mobs, "schedule": sched, "status": status, "model_end": mend})
    return res


LOAD_DATA = re.compile(r"^t(\d+) (H )?load (\S*)data = (\d+) @read#3")
FSUB = re.compile(r"^t(\d+) (H )?fetch_sub ")
FREE = re.compile(r"^t(\d+) (H )?free (\d+)")
USE = re.compile(r"^t(\d+) (H )?use (\d+)")
SWAP = re.compile(r"^t(\d+) (H )?swap (\S*)data (\d+) = (\d+)")


def monitor_c01(trace):
    """C01 on a (model or implementation) trace: no read section touches a freed snapshot;
    every snapshot is freed at most once, by the thread that swapped it out, not in a handler."""
    problems = []
    holding = {}          # tid -> snapshot id pinned
    freed = set()
    swapped_out = {}      # snapshot -> tid that swapped it out
    for i, l in enumerate(trace):
        m = LOAD_DATA.match(l)
        if m:
            tid, snap = int(m.group(1)), int(m.group(4))
            if snap in freed:
                problems.append("step %d: thread t%d pins snapshot %d which was already freed" % (i, tid, snap))
            holding[tid] = snap
            continue
        m = USE.match(l)
        if m and int(m.group(3)) in freed:
            problems.append("step %d: thread t%s uses snapshot %s after it was freed" % (i, m.group(1), m.group(3)))
        m = FSUB.match(l)
        if m:
            holding.pop(int(m.group(1)), None)
            continue
        m = SWAP.match(l)
        if m:
            swapped_out[int(m.group(5))] = int(m.group(1))
            continue
        m = FREE.match(l)
        if m:
            tid, snap = int(m.group(1)), int(m.group(3))
            if snap in freed:
                problems.append("step %d: snapshot %d freed twice" % (i, snap))
            freed.add(snap)
            if m.group(2):
                problems.append("step %d: snapshot %d freed inside a signal handler" % (i, snap))
            if swapped_out.get(snap) != tid:
                problems.append("step %d: snapshot %d freed by t%d which did not swap it out" % (i, snap, tid))
            for t, s in holding.items():
                if s == snap:
                    problems.append("step %d: snapshot %d freed by t%d while t%d is still inside a read section on it" % (i, snap, tid, t))
    return problems
