"""Front ends at operation level: `signal_hook::iterator::Signals` (pending / wait / forever) and the
mio, tokio and async-std adapters, driven by real raise() in a forked child and compared with the L8
model run sequentially (`driver frontends`).  The scheduled runs of it.py / itq.py drive the back end
(`SignalDelivery` / `SignalIterator`) directly; the glue between it and the user — `has_signals`,
the adapters' readiness callbacks and waker registration — is only exercised here."""
from . import core
from .c14 import split_blocks

WATCH = [10, 12, 14, 64]
BURSTS = [1, 1, 2, 3, 15, 16, 17, 32, 33, 48, 64]


def gen_block(rng, kind):
    watch = sorted(rng.sample(WATCH, rng.randint(1, 3)))
    ops = ["new %s %s" % (kind, " ".join(map(str, watch)))]
    outstanding = set()
    closed = False
    awaiting = False          # last poll answered Pending
    style_a = rng.random() < 0.5
    for _ in range(rng.randint(3, 9)):
        r = rng.random()
        if r < 0.4 or (not outstanding and not closed and r < 0.8):
            sg = rng.choice(watch)
            n = rng.choice(BURSTS)
            ops.append("raise %d %d" % (sg, n) if n > 1 else "raise %d" % sg)
            outstanding.add(sg)
            if awaiting:
                ops.append("woken"); awaiting = False
            continue
        if r > 0.93 and not closed and kind != "mio":
            ops.append("close"); closed = True
            if awaiting:
                ops.append("woken"); awaiting = False
            continue
        if kind == "signals":
            may_block = not outstanding and not closed
            # one family per block, as a consumer that "drains what it is handed" does: either pending / wait
            # (each batch is drained completely by the probe) or forever().next() only. A `forever()` that is
            # dropped after one item and followed by `wait()` has not drained what it was handed: the batch it
            # abandoned had consumed the wake-up bytes of the signals it did not yield.
            op = rng.choice(["pending", "wait", "wait"]) if style_a else "next"
            if may_block and op != "pending" and rng.random() < 0.9:
                if not style_a:
                    continue
                op = "pending"
            ops.append(op)
            if op == "next":
                if outstanding:
                    outstanding.discard(min(outstanding))
            else:
                outstanding.clear()
            if may_block and op != "pending":
                break
        elif kind == "mio":
            ops.append("mpoll")
            outstanding.clear()
        else:
            ops.append("poll")
            awaiting = not outstanding and not closed
            if outstanding:
                outstanding.discard(min(outstanding))
    if kind in ("tokio", "asyncstd") and not awaiting and rng.random() < 0.5:
        # drain, be told Pending, then a signal / close must call the waker
        ops += ["poll"] * (len(outstanding) + 1)
        if not closed:
            ops.append(rng.choice(["raise %d" % rng.choice(watch), "close"]))
            ops += ["woken", "poll"]
    return ops


def run_blocks(blocks):
    text = "\n---\n".join("\n".join(b) for b in blocks) + "\n---\n"
    rc, impl, err = core.run_harness("frontends", text, timeout=900)
    if rc != 0:
        raise core.Broken("frontends-harness", "exit %d %s" % (rc, err[-300:]))
    model = core.run_driver("frontends", text, timeout=600)
    return split_blocks(impl), split_blocks(model)


def monitors(ops, impl):
    """problems by property, judged from the implementation's answers alone"""
    probs = {"C09": [], "C10": [], "C11": []}
    watch = [int(x) for x in ops[0].split()[2:]]
    outstanding, closed, awaiting = set(), False, False
    if ops[0].startswith("newstart") and watch:
        outstanding.add(watch[0])      # delivered during start-up, right after it was registered
    answers = [l for l in impl if not l.startswith("exit")]
    for op, ans in zip(ops, answers + ["(no answer)"] * len(ops)):
        w = op.split()
        if w[0] == "raise":
            if int(w[1]) in watch:
                outstanding.add(int(w[1]))
        elif w[0] == "close":
            closed = True
        elif w[0] in ("pending", "wait", "mpoll"):
            if ans.startswith(("yield", "ready")):
                got = [int(x) for x in ans[ans.index("[") + 1:ans.index("]")].replace(",", " ").split()]
                extra = [g for g in got if g not in outstanding] + [g for g in set(got) if got.count(g) > 1]
                if extra:
                    probs["C10"].append("`%s` handed out %s, which was not delivered since it was last handed out (outstanding: %s)" % (op, extra, sorted(outstanding)))
                left = sorted(outstanding - set(got))
                if left:
                    probs["C09"].append("`%s` returned %s and left %s behind although their deliveries had returned" % (op, got, left))
                outstanding.clear()
            elif ans in ("blocked", "notready"):
                if outstanding:
                    probs["C09"].append("`%s` answered `%s` although %s had been delivered and not handed out" % (op, ans, sorted(outstanding)))
                elif closed:
                    probs["C11"].append("`%s` answered `%s` after close() had returned" % (op, ans))
        elif w[0] in ("next", "poll"):
            if ans.startswith("some"):
                v = int(ans.split()[1])
                if v not in outstanding:
                    probs["C10"].append("`%s` handed out %d, which was not delivered since it was last handed out" % (op, v))
                outstanding.discard(v)
                awaiting = False
            elif ans in ("blocked", "pending"):
                if outstanding:
                    probs["C09"].append("`%s` answered `%s` although %s had been delivered and not handed out" % (op, ans, sorted(outstanding)))
                elif closed:
                    probs["C11"].append("`%s` answered `%s` after close() had returned" % (op, ans))
                awaiting = ans == "pending"
            elif ans == "none":
                if not closed:
                    probs["C11"].append("`%s` ended the stream although the handle was never closed" % op)
                awaiting = False
        elif w[0] == "woken":
            pass
    # the waker: `poll -> pending`, then a delivery of a watched signal or close(), then `woken`
    for i, op in enumerate(ops):
        if op == "woken" and i >= 2 and i < len(answers):
            prev_poll = next((j for j in range(i - 1, -1, -1) if ops[j] == "poll"), None)
            if prev_poll is None or answers[prev_poll] != "pending":
                continue
            between = ops[prev_poll + 1:i]
            if any(b == "close" or (b.startswith("raise") and int(b.split()[1]) in watch) for b in between) and answers[i] == "woken false":
                probs["C11"].append("poll_next answered Pending, then `%s` happened, and the task's waker was never called" % between[0])
                if any(b.startswith("raise") and int(b.split()[1]) in watch for b in between):
                    # the parked consumer of an open instance never learns of the delivery: a lost wake-up
                    probs["C09"].append("poll_next answered Pending, then `%s` delivered a watched signal, and the task's waker was never called: the parked consumer does not obtain it" % next(b for b in between if b.startswith("raise")))
    return probs


def stage(pid, kinds, tier, rng):
    n = 40 if tier == "quick" else 400
    blocks = [gen_block(rng, k) for k in kinds for _ in range(n)]
    # fixed shapes: bursts whose wake-up bytes are a multiple of the flush chunk, drained by each entry point
    if "signals" in kinds:
        for b in (16, 32, 48, 1024, 1025):
            for op in ("wait", "next", "pending"):
                blocks.append(["new signals 10 12", "raise 10 %d" % b, op, "raise 12 %d" % b, op, "close", op])
    if "mio" in kinds:
        for b in (1, 16, 32):
            blocks.append(["new mio 10", "mpoll", "raise 10 %d" % b, "mpoll", "mpoll", "raise 10", "mpoll"])
    for k in ("tokio", "asyncstd"):
        if k in kinds:
            for b in (1, 16):
                blocks.append(["new %s 10 12" % k, "poll", "raise 10 %d" % b, "woken", "poll", "poll", "raise 12", "woken", "poll", "poll", "close", "woken", "poll"])
                blocks.append(["new %s 10" % k, "raise 10 %d" % b, "poll", "poll", "poll", "raise 10", "woken", "poll", "poll"])
    # a signal that lands while the constructor is still registering the rest of its list (and is noticed by the
    # reactor thread meanwhile) must be reported, and must not cost a later signal its wake-up
    if "signals" in kinds:
        blocks.append(["newstart signals 10 12", "wait", "raise 12", "wait", "close", "wait"])
        blocks.append(["newstart signals 10 12", "next", "raise 12", "next"])
    if "mio" in kinds:
        blocks.append(["newstart mio 10 12", "mpoll", "mpoll", "raise 12", "mpoll"])
    for k in ("tokio", "asyncstd"):
        if k in kinds:
            blocks.append(["newstart %s 10 12" % k, "poll", "poll", "raise 12", "woken", "poll", "poll", "close", "woken", "poll"])
            blocks.append(["newstart %s 10" % k, "poll", "poll", "raise 10", "woken", "poll"])
    chunks = [blocks[i::core.NPROC] for i in range(core.NPROC)]
    chunks = [c for c in chunks if c]
    res = core.pmap(run_blocks, chunks)
    failures, dist = [], {}

    def bad(b, i, m):
        return bool(monitors(b, i).get(pid, [])) or [x for x in m if not x.startswith("woken")] != [x for x in i if not x.startswith("woken")]

    for ch, (ib, mb) in zip(chunks, res):
        for b, i, m in zip(ch, ib, mb):
            if bad(b, i, m):
                # these probes wait for other threads (a reactor, a helper) with wall-clock time-outs: a block that
                # fails is run again, alone and five times as patient, and is believed only if it fails again
                import os
                os.environ["SIGHOOK_PATIENCE"] = "5"
                try:
                    again = [run_blocks([b]) for _ in range(2)]
                finally:
                    os.environ.pop("SIGHOOK_PATIENCE", None)
                fails = [(x[0][0], x[1][0]) for x in again if bad(b, x[0][0], x[1][0])]
                if not fails:
                    dist["frontend-blocks-passing-on-patient-rerun"] = dist.get("frontend-blocks-passing-on-patient-rerun", 0) + 1
                    i, m = again[0][0][0], again[0][1][0]
                else:
                    i, m = fails[0]
            kind = b[0].split()[1]
            dist["frontend:" + kind] = dist.get("frontend:" + kind, 0) + 1
            for a in i:
                k = "frontend-answer:" + a.split()[0]
                dist[k] = dist.get(k, 0) + 1
            probs = monitors(b, i).get(pid, [])
            payload = {"frontend": True, "ops": b, "impl": i, "model": m}
            mm = [x for x in m if not x.startswith("woken")]
            ii = [x for x in i if not x.startswith("woken")]
            if probs:
                failures.append({"kind": "violation", "key": "%s:fe:%s:%s" % (pid, kind, core.digest(probs[0][:40])),
                                 "what": "front end `%s`, ops `%s`: %s" % (kind, "; ".join(b), probs[0]), "payload": payload})
            elif ii != mm:
                d = core.first_diff(mm, ii)
                failures.append({"kind": "disagreement", "key": "%s:fediff:%s" % (pid, kind),
                                 "what": "front end `%s`, ops `%s`: model answers `%s`, implementation `%s`" % (kind, "; ".join(b), d[1], d[2]), "payload": payload})
    return len(blocks), dist, failures


def replay(pid, payload):
    ib, mb = run_blocks([payload["ops"]])
    probs = monitors(payload["ops"], ib[0]).get(pid, [])
    mm = [x for x in mb[0] if not x.startswith("woken")]
    ii = [x for x in ib[0] if not x.startswith("woken")]
    return bool(probs) or ii != mm, "ops: %s\nimplementation:\n%s\nmodel:\n%s\n%s" % (payload["ops"], "\n".join(ib[0]), "\n".join(mb[0]), "\n".join(probs))
