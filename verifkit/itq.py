"""Iterator back end with a queueing exfiltrator (WithRawSiginfo): scheduled scenarios on the real
code judged by the property monitors (implementation-vs-oracle; there is no lock-step model for
these runs - the channel and the SignalOnly iterator each have their own)."""
import re
from . import core

SIGS = [10, 12, 14]


def gen_scenario(rng):
    lines = []
    watch = rng.sample(SIGS, rng.randint(1, 3))
    lines.append("setup watch " + " ".join(str(x) for x in watch))
    style = rng.choice("ABB")
    lines.append("setup style " + style)
    tid = 0
    if rng.random() < 0.3:
        # burst: more records of ONE signal than the per-signal channel holds, while the consumer drains
        sg = watch[0]
        for _ in range(rng.randint(5, 6)):
            lines.append("t0 deliver %d" % sg)          # fills the channel first
        for _ in range(rng.randint(2, 4)):
            lines.append("t1 deliver %d" % sg)          # races with the drain
        lines[1] = "setup style B"
        for _ in range(rng.randint(10, 16)):
            lines.append("t2 poll")
        hold = rng.choice([150, 250, 400])
        lines.append("delay t1 %d" % hold)
        lines.append("delay t2 %d" % hold)
        tid = 3
        lines.append("seed %d" % rng.randint(1, 2**31))
        lines.append("maxsteps 20000")
        return lines
    if rng.random() < 0.35:
        # two or three handle clones add the same new signal concurrently, then it is delivered
        new = rng.choice([15, 17])
        k = rng.randint(2, 3)
        for j in range(k):
            lines.append("t%d add %d" % (tid + j, new))
            for _ in range(rng.randint(1, 2)):
                lines.append("t%d deliver %d" % (tid + j, new))
        tid += k
    for _ in range(rng.randint(1, 3)):
        # repeated deliveries of the same signal are the point: they queue up
        sg = rng.choice(watch)
        for _ in range(rng.randint(1, 4)):
            lines.append("t%d deliver %d" % (tid, sg if rng.random() < 0.7 else rng.choice(watch)))
        tid += 1
    if style == "B":
        if rng.random() < 0.6:
            for _ in range(rng.randint(4, 12)):
                lines.append("t%d poll" % tid)
            tid += 1
        else:
            lines.append("t%d forever" % tid); tid += 1
            lines.append("t%d deliver %d" % (tid, rng.choice(watch)))
            lines.append("t%d close" % tid); tid += 1
    else:
        for _ in range(rng.randint(2, 6)):
            lines.append("t%d %s" % (tid, rng.choice(["pending", "pending", "wait"])))
        tid += 1
        # a late delivery so that a trailing `wait` is not parked for good
        lines.append("t%d deliver %d" % (tid, rng.choice(watch))); tid += 1
    lines.append("seed %d" % rng.randint(1, 2**31))
    lines.append("maxsteps 20000")
    return lines


def gen_add_race(rng):
    """a signal is added through a handle while deliveries of that very signal are in progress on other threads:
    a delivery that runs the new action in the window between its publication in the registry and whatever
    `add_signal` still does afterwards must find everything it needs in place (C03: nothing is allocated inside a
    delivery; C10: the record is handed out once)"""
    watch = rng.sample(SIGS, rng.randint(1, 2))
    new = rng.choice([15, 17])
    lines = ["setup watch " + " ".join(str(x) for x in watch), "setup style " + rng.choice("AB"), "t0 add %d" % new]
    tid = 1
    for _ in range(rng.randint(1, 3)):
        for _ in range(rng.randint(2, 5)):
            lines.append("t%d deliver %d" % (tid, new))
        tid += 1
    for _ in range(rng.randint(2, 5)):
        lines.append("t%d %s" % (tid, "pending" if lines[1].endswith("A") else "poll"))
    lines.append("seed %d" % rng.randint(1, 2**31))
    lines.append("maxsteps 20000")
    return lines


def monitor_c03(r):
    """nothing is allocated or freed inside a delivery (counted by the harness's allocator wrapper)"""
    probs = []
    if r["status"].startswith("END crash rc=-"):
        # the process running the real code was killed by a signal (an abort from a panic that cannot unwind out of
        # the handler, a segmentation fault): a concrete failing schedule whatever else it is
        probs.append("the process running the real iterator under this scenario was killed by signal %s (%s)" % (
            r["status"].split("rc=-")[1].split()[0], " ".join(r["status"].split()[3:])[:160]))
    for i, l in enumerate(r["impl"]):
        if "HEAP-IN-HANDLER" in l:
            w = l.split()
            probs.append("line %d: the delivery on %s performed %s heap allocation/release operation(s) inside the signal handler (info-carrying exfiltrator)" % (i, w[0], w[-1]))
    return probs


def run_one(scenario):
    text = "\n".join(scenario) + "\n"
    rc, out, err = core.run_harness("iterq", text, timeout=20)
    status = next((l for l in out if l.startswith("END")), "END crash rc=%d %s" % (rc, " ".join(err.split())[-160:]))
    sched = next((l for l in out if l.startswith("SCHEDULE")), "SCHEDULE")
    parked = [l for l in out if l.startswith("PARKED")]
    obs = [l for l in out if not l.startswith(("SCHEDULE", "END", "PARKED"))]
    return {"scenario": scenario, "impl": obs, "schedule": sched.split()[1:], "status": status, "parked": parked}


def run_many(scenarios):
    return core.pmap(run_one, scenarios)


LINE = re.compile(r"^t(\d+) (H )?(.*)$")


def monitors(r):
    """C09 (no stranded record) and C10 (every yield is one delivered record, once)"""
    probs = {"C09": [], "C10": [], "C03": monitor_c03(r)}
    started = {}        # id -> sig
    completed = {}      # id -> line index of its `ret done`
    yielded = {}        # id -> line index
    called = {}         # id -> line index of its `call deliver`
    outstanding = {}    # sig -> ids sent and not yet yielded (to recognise legal overflow drops)
    maybe_dropped = set()
    cur = {}            # tid -> (call text, start index)
    for i, l in enumerate(r["impl"]):
        m = LINE.match(l)
        if not m:
            continue
        tid, body = int(m.group(1)), m.group(3)
        w = body.split()
        if w[0] == "call":
            cur[tid] = (body[5:], i)
            if w[1] == "deliver":
                sg, idn = int(w[2]), int(w[3])
                started[idn] = sg
                called[idn] = i
                q = outstanding.setdefault(sg, [])
                q.append(idn)
                if len(q) > 5:
                    # more than five records of this signal are unreported: the channel may be full,
                    # and any of the sends still in progress may be the one that is dropped
                    for x in q:
                        if x not in completed:
                            maybe_dropped.add(x)
        elif w[0] == "yield":
            sg, idn = int(w[1]), int(w[2])
            if "CORRUPT" in w:
                probs["C10"].append("line %d: the record handed out for delivery %d of signal %d is not a faithful copy of that delivery's siginfo_t (first difference at byte %s of %d)" % (i, idn, sg, w[-1], 128))
            if idn not in started or started[idn] != sg:
                probs["C10"].append("line %d: yielded a record (signal %d, id %d) that no delivery carried" % (i, sg, idn))
            elif idn in yielded:
                probs["C10"].append("line %d: the record of delivery %d (signal %d) was yielded twice" % (i, idn, sg))
            # records of one signal come out in the order of their deliveries: a delivery that had
            # returned before another one began is reported first
            for other, at in yielded.items():
                if started.get(other) == sg and other in called and idn in completed and completed[idn] < called[other]:
                    probs["C10"].append("line %d: the record of delivery %d (signal %d) is yielded after the record of delivery %d, which began only after %d had returned" % (i, idn, sg, other, idn))
                    break
            yielded[idn] = i
            if idn in outstanding.get(sg, []):
                outstanding[sg].remove(idn)
        elif w[0] == "ret":
            call, start = cur.get(tid, ("", 0))
            if call.startswith("add") and body != "ret add ok":
                probs["C10"].append("line %d: add_signal of a valid signal through a handle clone answered `%s`" % (i, body))
            if call.startswith("deliver") and w[1] == "done":
                completed[int(call.split()[2])] = i
            if body == "ret poll pending":
                # everything delivered completely before this poll call began must have been reported
                # by now, or its wake-up byte would have made the callback answer true
                late = [idn for idn, at in completed.items() if at < start and idn not in yielded and idn not in maybe_dropped]
                if late:
                    probs["C09"].append("line %d: poll answered Pending on an empty self-pipe although the record(s) of delivery %s (signal %s), delivered completely before the call, have never been reported" % (
                        i, late, sorted(set(started[x] for x in late))))
    if not r["status"].startswith("END done"):
        stuck = [p for p in r["parked"] if "cb-block" in p]
        late = [idn for idn in completed if idn not in yielded and idn not in maybe_dropped]
        if stuck and late:
            probs["C09"].append("the consumer is parked for good in its blocking readiness callback (%s) while the record(s) of completed delivery %s are queued and unreported" % (
                "; ".join(stuck), late))
        elif not stuck and not r["status"].startswith("END deadlock"):
            probs["C09"].append("scenario ended with %s" % r["status"])
    return probs


# ------------------------------------------------------------------ lock-step with the L8q model
SITE = re.compile(r"@(\w+)#(\d+)")
ADDR = re.compile(r"\?([0-9a-f]+)")


def abstract(full, scenario):
    """Turn the full shim trace of a queueing run into the abstract events of Model/IterQ.lean: one line
    per channel operation half (send-begin/-end, recv-begin/-end: the dequeue's decisive load or CAS, the
    enqueue's successful CAS), the closed flag, the self-pipe calls and the callbacks. Returns
    (lines, schedule, problems). Delivery ids are renamed to their rank in send-begin order."""
    groups = []            # [tid, [call lines], event line or None, [yield lines], [ret lines]]
    last = {}              # tid -> index into groups of the thread's last kept event
    pending_call = {}      # tid -> call lines waiting for the thread's next kept event
    st = {}                # tid -> dict(kind, sig, id, pos, wait)
    base = [None]
    rank = {}
    probs = []

    def emit(tid, h, text):
        groups.append([tid, pending_call.pop(tid, []), "t%d %s%s" % (tid, "H " if h else "", text), [], []])
        last[tid] = len(groups) - 1

    def slot_index(addr, expect=None):
        a = int(addr, 16)
        if base[0] is None:
            base[0] = a - 8 * (expect if expect is not None else 0)
        d = a - base[0]
        if d % 8 != 0 or d < 0:
            probs.append("slot access at an address that is no element of the slot array (offset %d)" % d)
            return -1
        return d // 8

    for l in full:
        m = LINE.match(l)
        if not m:
            continue
        tid, h, body = int(m.group(1)), bool(m.group(2)), m.group(3)
        w = body.split()
        if w[0] == "call":
            if w[1] == "deliver":
                st[tid] = {"kind": "deliver", "sig": int(w[2]), "id": int(w[3]), "wait": None}
                pending_call.setdefault(tid, []).append("t%d call deliver %s" % (tid, w[2]))
            else:
                st[tid] = {"kind": w[1], "wait": None, "pos": None}
                pending_call.setdefault(tid, []).append("t%d call %s" % (tid, " ".join(w[1:])))
            continue
        if w[0] == "yield":
            g = groups[last[tid]] if tid in last else None
            txt = "t%d yield %s %s" % (tid, w[1], rank.get(int(w[2]), "?%s" % w[2]))
            (g[3] if g else pending_call.setdefault(tid, [])).append(txt)
            continue
        if w[0] == "ret":
            g = groups[last[tid]] if tid in last else None
            txt = "t%d %s" % (tid, body)
            (g[4] if g else pending_call.setdefault(tid, [])).append(txt)
            continue
        if w[0] == "cb":
            emit(tid, False, body)
            continue
        if w[0] == "sys":
            if w[1] == "send":
                emit(tid, h, "wake %s" % ("ok" if body.endswith("= 1") else "full"))
            elif w[1] == "recv":
                emit(tid, h, "recv %s" % body.split("=")[-1].strip())
            continue
        sm = SITE.search(body)
        if not sm:
            continue
        site = sm.group(1) + "#" + sm.group(2)
        s = st.get(tid, {})
        am = ADDR.search(body)
        if site == "close#1":
            emit(tid, h, "store closed")
        elif site == "is_closed#1":
            emit(tid, h, "load closed = %s" % w[3])
        elif site == "store#1" and s.get("kind") == "deliver" and w[0] == "load":
            idx = slot_index(am.group(1), s["sig"])
            if idx != s["sig"]:
                probs.append("delivery of %d stores into the slot of signal %d" % (s["sig"], idx))
            if int(w[3]) == 0:
                rank[s["id"]] = len(rank) + 1
                emit(tid, h, "send-begin %d drop" % s["sig"])
            else:
                s["wait"] = "deq"
        elif site == "load#1" and w[0] == "load" and s.get("kind") != "deliver":
            pos = slot_index(am.group(1))
            s["pos"] = pos
            if int(w[3]) == 0:
                emit(tid, h, "recv-begin %d none" % pos)
            else:
                s["wait"] = "deq"
        elif site in ("dequeue#1", "dequeue#2") and s.get("wait") == "deq":
            decided = None
            if w[0] == "load":
                if int(w[3]) & 7 == 0:
                    decided = False
            elif "= ok" in body:
                decided = True
            elif "= fail" in body:
                v = int(body.split("= fail")[1].split()[0])
                if v & 7 == 0:
                    decided = False
            if decided is not None:
                if s["kind"] == "deliver":
                    rank[s["id"]] = len(rank) + 1
                    emit(tid, h, "send-begin %d %s" % (s["sig"], "ok" if decided else "drop"))
                else:
                    emit(tid, h, "recv-begin %d %s" % (s["pos"], "some" if decided else "none"))
                s["wait"] = "enq" if decided else None
        elif site == "enqueue#2" and s.get("wait") == "enq" and "= ok" in body:
            if s["kind"] == "deliver":
                emit(tid, h, "send-end %d" % s["sig"])
            else:
                emit(tid, h, "recv-end %d" % s["pos"])
            s["wait"] = None
    lines, sched = [], []
    for tid, calls, ev, ys, rets in groups:
        lines += calls + [ev] + ys + rets
        sched.append(str(tid))
    return lines, sched, probs


def lockstep(scenario):
    """run one queueing scenario on the real code with the full trace, and the L8q model on the schedule of
    its abstract events"""
    sc = [l for l in scenario if l != "setup trace"]
    text = "\n".join(sc[:1] + ["setup trace"] + sc[1:]) + "\n"
    rc, out, err = core.run_harness("iterq", text, timeout=30)
    status = next((l for l in out if l.startswith("END")), "END crash rc=%d %s" % (rc, " ".join(err.split())[-160:]))
    full = [l for l in out if not l.startswith(("SCHEDULE", "END", "PARKED"))]
    impl, sched, probs = abstract(full, sc)
    dtext = "\n".join([l for l in sc if not l.startswith(("schedule", "delay"))] + ["cap 278 prefill 0", "schedule " + " ".join(sched), "---"]) + "\n"
    mout = core.run_driver("iterq", dtext, timeout=120)
    model = [l for l in mout if not l.startswith("END") and l != "---"]
    mend = next((l for l in mout if l.startswith("END")), "END ?")
    st = status.split()[1] if len(status.split()) > 1 else "?"
    st = {"deadlock": "blocked", "done": "done"}.get(st, st)
    return {"scenario": sc, "impl": impl, "model": model, "schedule": sched, "status": "END " + st, "model_end": mend, "problems": probs}
