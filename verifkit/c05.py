"""C05 — registry = independent per-signal ordered multisets with unique ids."""
import json, os
from . import core
from .runner import PropCheck

# signals that are safe to take over and raise inside the harness process
SAFE_SIGS = [1, 2, 3, 10, 12, 13, 14, 15, 17, 18, 23, 24, 25, 26, 27, 28, 29, 30, 34, 35, 40, 50, 63, 64]
FORBIDDEN = [9, 19, 4, 8, 11]
BAD_NUMS = [0, -1, -2, 65, 66, 100, 127, 128, 129, 200, 1000, 2147483647, -2147483648, 32, 33]


def gen_history(rng, length, malformed_rate=0.08):
    """type-directed history: mostly valid operations over a few signals, plus a malformed
    stream (stale ordinals, forbidden / out-of-range numbers)."""
    sigs = rng.sample(SAFE_SIGS, rng.randint(1, 5))
    taken, nreg, live = set(), 0, []   # live: ordinals believed live (generator bias only)
    ops, tag = [], 100
    for _ in range(length):
        r = rng.random()
        if r < malformed_rate:
            k = rng.random()
            if k < 0.3:
                ops.append("%s %d %d" % (rng.choice(["reg", "regsa"]), rng.choice(FORBIDDEN), tag)); tag += 1
            elif k < 0.6:
                ops.append("%s %d %d" % (rng.choice(["reg", "regsa", "regu", "regusa"]), rng.choice(BAD_NUMS), tag)); tag += 1
            elif k < 0.7:
                ops.append("%s %d %d" % (rng.choice(["regu", "regusa"]), rng.choice([9, 19]), tag)); tag += 1
            elif k < 0.85:
                ops.append("unreg %d" % rng.randint(0, nreg + 3))
            else:
                ops.append("unregsig %d" % rng.choice(SAFE_SIGS + BAD_NUMS[:6]))
            continue
        sig = rng.choice(sigs)
        if r < 0.12 and sig not in taken:
            kind = rng.choice(["h1:%d" % rng.randint(0, 7), "h3:%d" % rng.randint(0, 7), "ign", "dfl"])
            if kind in ("ign", "dfl") and rng.random() < 0.5:
                # the special dispositions stay special whatever sa_flags they were installed with (SA_SIGINFO, ...)
                kind += "+%x" % rng.choice([0x4, 0x4, 0x10000004, 0x40000000, 0x8000004])
            if kind[0] == "h" and rng.random() < 0.6:
                # the foreign handler's own sa_flags: SA_RESETHAND, SA_NODEFER, SA_ONSTACK, SA_NOCLDSTOP, SA_RESTART
                fl = 0
                for bit in (0x80000000, 0x40000000, 0x08000000, 0x1, 0x10000000):
                    if rng.random() < 0.35:
                        fl |= bit
                if fl:
                    kind += "+%x" % fl
            if rng.random() < 0.3:
                # the predecessor blocks another signal while it runs: none of the library's business afterwards
                kind += "~%d" % rng.choice([12, 10, 15, 2])
            ops.append("foreign %d %s" % (sig, kind))
        elif r < 0.50:
            ops.append("%s %d %d" % (rng.choice(["reg", "regsa", "regu", "regusa"]), sig, tag)); tag += 1
            taken.add(sig); live.append(nreg); nreg += 1
        elif r < 0.68 and live:
            k = rng.choice(live) if rng.random() < 0.8 else rng.randint(0, nreg - 1)
            if k in live:
                live.remove(k)
            ops.append("unreg %d" % k)
        elif r < 0.72:
            ops.append("unregsig %d" % sig)
        else:
            ops.append("raise %d" % sig)
    return ops


def canon_ops_for_model(ops):
    return "\n".join(ops) + "\n"


class C05(PropCheck):
    pid = "C05"
    prop_module = "SigHook.Props.C05"
    assumptions = [
        "signals are delivered only through the installed disposition; raise() delivers synchronously to the caller",
        "Admissible: nobody outside the library changes the disposition of a signal after the library took it over",
        "HashMap/BTreeMap/Arc modelled by their specifications (association list, key-sorted list, shared ownership)",
        "sa_flags canonicalised by masking SA_RESTORER (added by glibc)",
        "id counter modelled as Nat; C05_no_u128_wrap shows no wrap below 2^128-1 operations",
    ]

    def run_one(self, ops):
        text = canon_ops_for_model(ops)
        model = core.run_driver("registry", text)
        rc, impl, err = core.run_harness("registry", text)
        return model, impl, rc, err

    def fails(self, ops):
        model, impl, rc, err = self.run_one(ops)
        return rc != 0 or core.first_diff(model, impl) is not None

    def correspond(self, tier, seed, rng):
        n_hist, length = (200, 300) if tier == "quick" else (12000, 1500)
        corpus = []
        cdir = os.path.join(core.VERIF, "corpus", "C05")
        if os.path.isdir(cdir):
            for f in sorted(os.listdir(cdir)):
                corpus.append([l.strip() for l in open(os.path.join(cdir, f)) if l.strip() and not l.startswith("#")])
        hists = corpus + [gen_history(rng, rng.randint(length // 3, length)) for _ in range(n_hist)]
        if tier == "thorough":
            # one very long register/unregister churn (many ids, few live at once)
            churn = []
            for i in range(20000):
                churn.append("reg 10 %d" % i)
                churn.append("unreg %d" % i)
                if i % 1000 == 0:
                    churn.append("raise 10")
            hists.append(churn)
        results = core.pmap(self.run_one, hists)
        failures, dist, seen, nontrivial = [], {}, set(), 0
        samples = []
        for ops, (model, impl, rc, err) in zip(hists, results):
            for o in ops:
                k = o.split()[0]; dist["op:" + k] = dist.get("op:" + k, 0) + 1
            for l in impl:
                k = l.split()[0]; dist["out:" + k] = dist.get("out:" + k, 0) + 1
            h = core.digest(ops)
            if h not in seen:
                seen.add(h)
                if any(l.startswith("id ") for l in impl) and any(l.startswith("ran ") for l in impl):
                    nontrivial += 1
            d = core.first_diff(model, impl)
            if (rc != 0 or d is not None) and len(failures) >= 3:
                failures.append({'kind': 'violation', 'what': 'history of %d ops differs (not shrunk)' % len(ops), 'key': 'C05:' + core.digest(ops), 'payload': {'ops': ops}})
            elif rc != 0 or d is not None:
                small = core.ddmin(ops, self.fails, budget=150)
                m2, i2, rc2, err2 = self.run_one(small)
                d2 = core.first_diff(m2, i2)
                what = ("history of %d ops (shrunk from %d): the real registry is distinguishable from the simple "
                        "model at op #%s: model `%s` vs implementation `%s`%s" % (
                            len(small), len(ops), d2[0] if d2 else "?", d2[1] if d2 else "?", d2[2] if d2 else "?",
                            (" (harness exit %d: %s)" % (rc2, err2[-200:])) if rc2 != 0 else ""))
                failures.append({"kind": "violation", "what": what, "key": "C05:" + core.digest(small),
                                 "payload": {"ops": small, "model": m2, "impl": i2, "harness_rc": rc2,
                                             "replay_cmd": "bin/check C05 --replay <this file>"}})
        if hists:
            samples.append({"ops": hists[-1][:12], "impl_outputs": results[-1][1][:12]})
        # concurrent stage: the same registration removed by several threads at once (scheduler)
        from . import c02
        rcres = c02.C05rc().correspond(tier, seed, rng)
        failures += rcres["failures"]
        dist["concurrent_unregister_scenarios"] = rcres["evaluations"]
        return {
            "evaluations": len(hists) + rcres["evaluations"], "distinct_nontrivial": nontrivial + rcres["distinct_nontrivial"],
            "rule": "histories generated type-directed from one PRNG (VERIF_SEED): mostly valid register/unregister/"
                    "raise/foreign over 1-5 signals + %d%% malformed stream (forbidden, out-of-range, stale ids); "
                    "run on the real crate with real raise() in a fresh process each and on the Lean model; distinct = "
                    "different op list, non-trivial = at least one successful registration and one dispatched delivery; plus scheduled scenarios in which 2-3 threads unregister the same registration concurrently with a writer and a delivery (monitor: answered true exactly once, by the call that removed it)" % 8,
            "samples": samples, "traces_validated_against_impl": len(hists), "distribution": dist,
            "failures": failures,
            "total_ops": sum(len(h) for h in hists),
        }

    def replay(self, payload):
        if "scenario" in payload:
            from . import c02
            return c02.C05rc().replay(payload)
        ops = payload["ops"]
        model, impl, rc, err = self.run_one(ops)
        d = core.first_diff(model, impl)
        text = "ops:\n  " + "\n  ".join(ops) + "\nmodel:\n  " + "\n  ".join(model) + "\nimplementation:\n  " + "\n  ".join(impl)
        return (rc != 0 or d is not None), text
