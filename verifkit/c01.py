"""C01 — removal is quiescent; freed outside any handler (half-lock level + registry level)."""
from . import core, hl
from .runner import PropCheck


class C01(PropCheck):
    pid = "C01"
    prop_module = "SigHook.Props.C01"
    assumptions = [
        "sequential consistency: every atomic in half_lock.rs is declared SeqCst (checked from Gen.orderings by C01_halflock_all_seqcst) + DRF-SC (trusted)",
        "the shim reports every shared-memory operation of half_lock.rs (name shadowing of the std atomics/Mutex/Box; the extractor lists all atomic call sites)",
        "deliveries in schedule exploration are simulated calls of the real dispatcher (hook verif::deliver)",
    ]

    def correspond(self, tier, seed, rng):
        n = 400 if tier == "quick" else 30000
        scenarios = [hl.gen_scenario(rng, big=(tier != "quick")) for _ in range(n)]
        batches = [scenarios[i::core.NPROC] for i in range(core.NPROC)]
        results = []
        for r in core.pmap(hl.run_batch, batches):
            results += r
        failures, dist, distinct = [], {}, set()
        nontrivial = 0
        steps = 0
        for r in results:
            steps += len(r["impl"])
            key = core.digest([r["scenario"][:-2], r["schedule"]])
            if key not in distinct:
                distinct.add(key)
                # non-trivial: some read section overlaps a writer's swap..free window
                if any(" swap " in l for l in r["impl"]) and any("@read#3" in l for l in r["impl"]):
                    nontrivial += 1
            for l in r["impl"]:
                w = l.split()
                k = w[2] if w[1] == "H" else w[1]
                dist[k] = dist.get(k, 0) + 1
            dist["end:" + r["status"]] = dist.get("end:" + r["status"], 0) + 1
            d = core.first_diff(r["model"], r["impl"])
            probs = hl.monitor_c01(r["impl"])
            payload = {"scenario": r["scenario"], "schedule": r["schedule"], "impl": r["impl"], "model": r["model"]}
            if probs:
                failures.append({"kind": "violation", "key": "C01:hl:" + core.digest(probs[0].split(":")[1:]),
                                 "what": "half-lock schedule (%d steps): %s" % (len(r["schedule"]), probs[0]), "payload": payload})
            elif d is not None:
                failures.append({"kind": "disagreement", "key": "C01:hldiff",
                                 "what": "half-lock step trace differs from the model at step %d: model `%s` vs implementation `%s`" % d,
                                 "payload": payload})
            elif r["status"] != "END done":
                failures.append({"kind": "disagreement", "key": "C01:hlend", "what": "scenario ended with %s" % r["status"], "payload": payload})
        # registry level: the actions themselves (release once, by the remover, outside handlers,
        # never while pinned, no run after the removal returned)
        from . import c02, c09
        rcres = c02.C01rc().correspond(tier, seed, rng)
        failures += rcres["failures"]
        dist["registry_scenarios"] = rcres["evaluations"]
        # removal by dropping the owner: handle clones add signals concurrently, then everything is
        # dropped and every signal re-delivered - no action of the instance may remain or run
        class Owners(c09.IterCheck):
            pid = "C01"
            profile = "adders"
        ores = Owners().correspond(tier, seed, rng)
        failures += ores["failures"]
        dist["owner_drop_scenarios"] = ores["evaluations"]
        # ... and the owners dropped while deliveries are in progress on other threads: what the actions captured
        # (the write end of the self-pipe) is let go by the dropping thread, never inside a delivery
        class Dropped(c09.IterCheck):
            pid = "C01"
            profile = "ownerdrop"
        dres = Dropped().correspond(tier, seed, rng)
        failures += dres["failures"]
        dist["owners_dropped_under_deliveries"] = dres["evaluations"]
        ores["evaluations"] += dres["evaluations"]
        uniq = {}
        for f in failures:
            uniq.setdefault(f["key"], f)
        return {"evaluations": len(results) + rcres["evaluations"] + ores["evaluations"],
                "distinct_nontrivial": nontrivial + rcres["distinct_nontrivial"] + ores["distinct_nontrivial"],
                "rule": "random scenarios (2-5 threads, 1-3 read/write commands each) on the real HalfLock under the deterministic scheduler with a PRNG schedule from VERIF_SEED; every shim-visible step is compared with the Lean model replaying the same schedule; the C01 trace monitor runs on the implementation trace; distinct = different (scenario, schedule); non-trivial = contains a swap and a reader's data load; plus registry-level scenarios (register / unregister / deliveries incl. nested ones, monitors: an action is released once, by the removing thread, outside handlers, never while a delivery has a snapshot with it pinned, and never runs after its removal returned) and owner-drop scenarios (handle clones add signals concurrently, the instance and all handles are dropped, every signal is re-delivered: no action of the instance may remain registered or run)",
                "samples": [{"scenario": results[0]["scenario"], "schedule": " ".join(results[0]["schedule"]), "trace": results[0]["impl"][:14]}] if results else [],
                "traces_validated_against_impl": len(results), "steps_compared": steps, "distribution": dist,
                "failures": list(uniq.values())}

    def replay(self, payload):
        if any(l.startswith("setup") or " reg " in l or "deliver" in l for l in payload["scenario"]):
            from . import c02
            return c02.C01rc().replay(payload)
        if any(l.startswith("watch") or "add " in l or "poll" in l for l in payload["scenario"]):
            from . import c09
            class Owners(c09.IterCheck):
                pid = "C01"
                profile = "adders"
            return Owners().replay(payload)
        sc = [l for l in payload["scenario"] if not l.startswith("seed")] + ["schedule " + " ".join(payload["schedule"])]
        r = hl.run_batch([sc])[0]
        probs = hl.monitor_c01(r["impl"])
        d = core.first_diff(r["model"], r["impl"])
        text = "\n".join(r["impl"]) + "\n" + "\n".join(probs) + ("\nfirst difference to model: %s" % (d,) if d else "")
        return bool(probs) or d is not None, text
