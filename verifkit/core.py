"""Shared machinery of /verif/bin/check: build steps, proof audit, executors, evidence."""
import concurrent.futures as cf
import hashlib, json, os, random, re, subprocess, sys, time

VERIF = os.path.dirname(os.path.dirname(os.path.abspath(__file__)))
REPO = os.environ.get("VERIF_REPO", "/repo")
LEAN = os.path.join(VERIF, "lean")
HARNESS = os.path.join(VERIF, "harness")
DRIVER = os.path.join(LEAN, ".lake", "build", "bin", "driver")
HARNESS_BIN = os.path.join(HARNESS, "target", "debug", "sighook-harness")
NPROC = os.cpu_count() or 4
ALLOWED_AXIOMS = {"propext", "Classical.choice", "Quot.sound"}
ENV = dict(os.environ, CARGO_NET_OFFLINE="true")

TRUSTED_BASE = [
    "Lean 4.33 kernel (lake build; thorough tier re-checks with leanchecker)",
    "axioms allowed in property theorems: propext, Classical.choice, Quot.sound (audited from #print axioms each run); no sorry/native_decide/bv_decide/own axioms",
    "extract/extract.py (translator of tables, constants and orderings from /repo's source text)",
    "harness + driver correspondence check (differential execution of model and real code)",
    "Props/*.lean statements are faithful renderings of properties.jsonl (human audit)",
    "Model/Env.lean: Linux/glibc behaviour tables (validated by real-kernel probes, not proved)",
]


class Broken(Exception):
    """a proof obligation / build step / correspondence no longer checks"""
    def __init__(self, what, detail=""):
        super().__init__(what)
        self.what, self.detail = what, detail


def sh(cmd, cwd=None, timeout=3600, input=None):
    t = time.time()
    p = subprocess.run(cmd, cwd=cwd, env=ENV, capture_output=True, text=True, timeout=timeout, input=input)
    return p.returncode, p.stdout, p.stderr, time.time() - t


# ------------------------------------------------------------------ build steps
# which translator sections each property's theorems / model parameters depend on
SECTION_DEPS = {
    "forbidden": ["C05", "C12", "C14"], "libflags": ["C04", "C05", "C15"], "details": ["C15", "C16"],
    "cause": ["C17"],
    "cause_fields": ["C17"],
    "registry_types": ["C02", "C05"],
    "channel_consts": ["C06", "C07", "C08", "C10"],
    "misc_consts": ["C01", "C09", "C10", "C11", "C12", "C18"],
    "orderings": ["C01", "C02", "C03", "C04", "C06", "C07", "C08", "C09", "C10", "C11", "C15", "C18"],
    "poll_signal_shape": ["C09", "C11"], "instance_shape": ["C12", "C14", "C18"],
    "skeleton": ["C01", "C02", "C03", "C04", "C06", "C07", "C08", "C09", "C10", "C11", "C12", "C13", "C15", "C16", "C18", "C17"],
}


def run_extract(pid=None):
    rc, out, err, dt = sh([sys.executable, os.path.join(VERIF, "extract", "extract.py")])
    if rc != 0:
        raise Broken("extract", (out + err).strip())
    errs = {}
    ep = os.path.join(VERIF, "extract_errors.json")
    if os.path.exists(ep):
        errs = json.load(open(ep))
    mine = {k: v for k, v in errs.items() if pid is None or pid in SECTION_DEPS.get(k, [pid])}
    if mine:
        raise Broken("extract", "; ".join("%s: %s" % kv for kv in sorted(mine.items())))
    return out.strip()


def lake_build(targets):
    rc, out, err, dt = sh(["lake", "build"] + targets, cwd=LEAN)
    return rc, out + err, dt


def cargo_build():
    # signal-hook's build.rs compiles extract.c through `cc`, which emits rerun-if-env-changed
    # directives only; cargo then does not notice an edited extract.c. Force that package to be
    # rebuilt whenever the C file's content differs from what the last build used.
    cfile = os.path.join(REPO, "src", "low_level", "extract.c")
    stamp = os.path.join(HARNESS, "target", ".extract_c.sha1")
    h = hashlib.sha1(open(cfile, "rb").read()).hexdigest() if os.path.exists(cfile) else "none"
    old = open(stamp).read().strip() if os.path.exists(stamp) else ""
    if h != old:
        sh(["cargo", "clean", "--offline", "-p", "signal-hook"], cwd=HARNESS)
    rc, out, err, dt = sh(["cargo", "build", "--offline", "-q"], cwd=HARNESS)
    if rc == 0:
        os.makedirs(os.path.dirname(stamp), exist_ok=True)
        open(stamp, "w").write(h)
    if rc != 0:
        raise Broken("harness-build", (out + err)[-4000:])
    return dt


# ------------------------------------------------------------------ proof audit
DECL_RE = re.compile(r"^(?:@\[[^\]]*\]\s*)?(?:private\s+|protected\s+)?(theorem|lemma|example)\b[ \t]*([^\s:({\[]*)", re.M)
FORBIDDEN_RE = re.compile(r"\b(sorry|admit|native_decide|bv_decide|implemented_by|unsafe)\b|^\s*axiom\s|maxHeartbeats\s+0", re.M)


def strip_lean_comments(src):
    out, i, n, depth = [], 0, len(src), 0
    while i < n:
        if src.startswith("/-", i):
            depth += 1; i += 2
        elif depth and src.startswith("-/", i):
            depth -= 1; i += 2
        elif depth:
            if src[i] == "\n":
                out.append("\n")
            i += 1
        elif src.startswith("--", i):
            j = src.find("\n", i)
            i = n if j < 0 else j
        else:
            out.append(src[i]); i += 1
    return "".join(out)


def lean_deps(module, seen=None):
    """transitive SigHook.* imports of a module (file paths)"""
    seen = seen if seen is not None else {}
    if module in seen:
        return seen
    path = os.path.join(LEAN, *module.split(".")) + ".lean"
    seen[module] = path
    if os.path.exists(path):
        for m in re.findall(r"^import\s+(SigHook\.[\w\.]+)", open(path).read(), re.M):
            lean_deps(m, seen)
    return seen


def audit_sources(modules):
    """grep the property's Lean sources (comments stripped) for forbidden constructs"""
    hits = []
    files = {}
    for m in modules:
        files.update(lean_deps(m))
    for mod, path in sorted(files.items()):
        if not os.path.exists(path):
            hits.append("%s: missing file" % mod); continue
        src = strip_lean_comments(open(path).read())
        for mm in FORBIDDEN_RE.finditer(src):
            line = src.count("\n", 0, mm.start()) + 1
            hits.append("%s:%d: %s" % (path, line, mm.group(0).strip()))
    return hits, files


def declarations(path):
    src = strip_lean_comments(open(path).read())
    decls = []
    for mm in DECL_RE.finditer(src):
        line = src.count("\n", 0, mm.start()) + 1
        decls.append((line, mm.group(1), mm.group(2)))
    return decls


def print_axioms(prop_module, theorems, extra_imports=()):
    """#print axioms for each named theorem, via a throw-away file run under `lake env lean`"""
    if not theorems:
        return {}
    audit = os.path.join(LEAN, ".lake", "audit_%s_%d.lean" % (prop_module.replace(".", "_"), os.getpid()))
    with open(audit, "w") as f:
        f.write("import %s\n" % prop_module)
        for m in extra_imports:
            f.write("import %s\n" % m)
        for t in theorems:
            f.write("#print axioms %s\n" % t)
    rc, out, err, dt = sh(["lake", "env", "lean", audit], cwd=LEAN)
    os.unlink(audit)
    res = {}
    text = out + err
    for t in theorems:
        short = t.split(".")[-1]
        m = re.search(r"'%s' depends on axioms: \[([^\]]*)\]" % re.escape(t), text, re.S)
        if m:
            res[t] = [a.strip() for a in m.group(1).replace("\n", " ").split(",") if a.strip()]
        elif re.search(r"'%s' does not depend on any axioms" % re.escape(t), text):
            res[t] = []
        else:
            res[t] = None
    return res


def proof_stage(prop_module, extra_modules=(), namespace_hint=None):
    """build + audit the Lean side of one property. Returns a dict; raises nothing (the caller
    decides what a failure means)."""
    info = {"module": prop_module, "ok": True, "problems": []}
    mods = [prop_module] + list(extra_modules)
    rc, log, dt = lake_build(mods + ["driver"])
    info["build_s"] = round(dt, 1)
    files = {}
    hits, files = audit_sources(mods)
    # obligations = theorems/lemmas/examples in the property module and the lemma/model files it imports
    decls = []
    for mod, path in sorted(files.items()):
        if os.path.exists(path) and ".Gen." not in mod:
            for (line, kind, name) in declarations(path):
                decls.append((mod, path, line, kind, name))
    info["obligations"] = len(decls)
    failed = set()
    if rc != 0:
        info["ok"] = False
        errs = re.findall(r"error: ([^\s:]+\.lean):(\d+):\d+: (.*)", log)
        if not errs:
            info["problems"].append("lake build failed: " + log[-1500:])
        for (file, line, msg) in errs:
            ap = os.path.join(LEAN, file) if not os.path.isabs(file) else file
            cands = [d for d in decls if os.path.abspath(d[1]) == os.path.abspath(ap) and d[2] <= int(line)]
            name = "%s:%s" % (file, line)
            if cands:
                d = max(cands, key=lambda d: d[2])
                name = "%s %s (%s:%d)" % (d[3], d[4] or "<anonymous>", file, d[2])
                failed.add((d[1], d[2]))
            info["problems"].append("obligation no longer checks: %s — %s" % (name, msg[:200]))
        if not failed:
            failed.add(("?", 0))
    if hits:
        info["ok"] = False
        info["problems"] += ["forbidden construct: " + h for h in hits]
    info["discharged"] = len(decls) - len(failed) if rc != 0 else len(decls)
    # property theorems = named theorems in the Props module (and in the extra Props modules)
    thms = []
    for pm in [prop_module] + [m for m in extra_modules if ".Props." in m]:
      ppath = files.get(pm)
      if ppath and os.path.exists(ppath):
        src = strip_lean_comments(open(ppath).read())
        # fully qualified names: track `namespace X` / `end X` by position
        marks = [(m.start(), "ns", m.group(1)) for m in re.finditer(r"^namespace\s+([\w\.]+)", src, re.M)]
        marks += [(m.start(), "end", m.group(1)) for m in re.finditer(r"^end\s+([\w\.]+)", src, re.M)]
        marks += [(m.start(), "decl", (m.group(1), m.group(2))) for m in DECL_RE.finditer(src)]
        stack = []
        for _, kind, val in sorted(marks, key=lambda x: x[0]):
            if kind == "ns":
                stack.append(val)
            elif kind == "end":
                if stack and stack[-1] == val:
                    stack.pop()
            elif val[0] == "theorem" and val[1]:
                thms.append(".".join(stack + [val[1]]))
    info["property_theorems"] = [t.split(".")[-1] for t in thms]
    info["axioms"] = {}
    if rc == 0:
        ax = print_axioms(prop_module, thms, extra_imports=[m for m in extra_modules if ".Props." in m])
        for t, a in ax.items():
            info["axioms"][t.split(".")[-1]] = a
            if a is None:
                info["ok"] = False
                info["problems"].append("#print axioms gave no answer for " + t)
            else:
                bad = [x for x in a if x not in ALLOWED_AXIOMS]
                if bad:
                    info["ok"] = False
                    info["problems"].append("theorem %s depends on disallowed axioms %s" % (t, bad))
    info["checker_cmd"] = "cd /verif/lean && lake build %s && lake env lean <#print axioms audit>" % " ".join(mods)
    return info


def leanchecker(mods):
    rc, out, err, dt = sh(["lake", "env", "leanchecker"] + mods, cwd=LEAN, timeout=3600)
    return rc, (out + err)[-2000:], dt


# ------------------------------------------------------------------ executors
def run_driver(model, text, timeout=600):
    rc, out, err, dt = sh([DRIVER, model], input=text, timeout=timeout)
    if rc != 0:
        raise Broken("driver", "driver %s exited %d: %s" % (model, rc, err[-500:]))
    return out.splitlines()


def run_harness(cmd, text, timeout=600, args=()):
    """returns (returncode, stdout-lines, stderr)"""
    try:
        p = subprocess.run([HARNESS_BIN, cmd] + list(args), env=ENV, capture_output=True, text=True,
                           timeout=timeout, input=text)
    except subprocess.TimeoutExpired as e:
        return -999, (e.stdout or "").splitlines() if isinstance(e.stdout, str) else [], "timeout"
    return p.returncode, p.stdout.splitlines(), p.stderr


def first_diff(a, b):
    for i in range(max(len(a), len(b))):
        x = a[i] if i < len(a) else "<missing>"
        y = b[i] if i < len(b) else "<missing>"
        if x != y:
            return i, x, y
    return None


def pmap(fn, items, workers=None):
    with cf.ThreadPoolExecutor(max_workers=workers or NPROC) as ex:
        return list(ex.map(fn, items))


def ddmin(lines, fails, budget=200):
    """delta-debugging minimisation of a list of op lines under predicate `fails`"""
    n, calls = 2, 0
    while len(lines) >= 2 and calls < budget:
        chunk = max(1, len(lines) // n)
        reduced = False
        for i in range(0, len(lines), chunk):
            cand = lines[:i] + lines[i + chunk:]
            calls += 1
            if cand and fails(cand):
                lines, n, reduced = cand, max(n - 1, 2), True
                break
            if calls >= budget:
                break
        if not reduced:
            if chunk == 1:
                break
            n = min(len(lines), n * 2)
    return lines


# ------------------------------------------------------------------ evidence / verdict
def write_evidence(pid, tier, seed, level, coverage, assumptions, wall_s, violations):
    os.makedirs(os.path.join(VERIF, "evidence"), exist_ok=True)
    ev = {"property_id": pid, "tier": tier, "seed": seed, "level": level, "coverage": coverage,
          "assumptions": assumptions, "wall_s": round(wall_s, 2), "violations": violations}
    path = os.path.join(VERIF, "evidence", pid + ".json")
    with open(path, "w") as f:
        json.dump(ev, f, indent=1, sort_keys=True, default=str)
    return path


def write_replay(pid, name, payload):
    os.makedirs(os.path.join(VERIF, "replays"), exist_ok=True)
    path = os.path.join(VERIF, "replays", "%s_%s.json" % (pid, name))
    with open(path, "w") as f:
        json.dump(payload, f, indent=1, default=str)
    return path


def known_findings(pid):
    path = os.path.join(VERIF, "known_findings.json")
    if not os.path.exists(path):
        return []
    data = json.load(open(path))
    return [k for k in data.get("known", []) if k.get("property") == pid]


def digest(obj):
    return hashlib.sha1(json.dumps(obj, sort_keys=True).encode()).hexdigest()[:16]
