"""C06 / C07 / C08: channel step correspondence, table comparison, monitors."""
from . import core, ch
from .runner import PropCheck


class ChannelCheck(PropCheck):
    pid = "C06"
    prop_module = "SigHook.Props.C06"
    extra_modules = ("SigHook.Props.Packed",)
    assumptions = [
        "memory model: view-based operational semantics of the Relaxed/Acquire/Release fragment (Model/Channel.lean), trusted to over-approximate Rust's model for this program (every store to the two atomics is an RMW); no load-buffering / out-of-thin-air",
        "the scheduler drives the real code through SC interleavings plus injected spurious compare_exchange_weak failures; stale relaxed reads are covered by the theorems and, on the implementation, by the Miri stage (harness-miri: the unshimmed channel under Miri's weak-memory emulation and data-race detector, many scheduler seeds); the scheduled runs on x86 cannot exhibit them",
        "a send nested in a signal handler is modelled as an additional thread (more interleavings, fewer happens-before edges)",
    ]

    def table(self):
        """exhaustive get/set table: real code vs model, all 2^16 x 5 x 8 arguments, by checksum"""
        rc, impl, err = core.run_harness("channel-table", "")
        import subprocess
        p = subprocess.run([core.DRIVER, "channel-table"], capture_output=True, text=True)
        model = p.stdout.splitlines()
        return impl, model

    def correspond(self, tier, seed, rng):
        n = 400 if tier == "quick" else 30000
        scenarios = [ch.gen_scenario(rng, big=(tier != "quick")) for _ in range(n)]
        batches = [scenarios[i::core.NPROC] for i in range(core.NPROC)]
        results = []
        for r in core.pmap(ch.run_batch, batches):
            results += r
        failures, dist, distinct, nontrivial, steps = [], {}, set(), 0, 0
        timpl, tmodel = self.table()
        td = core.first_diff(tmodel, timpl)
        if td is not None or not timpl:
            failures.append({"kind": "violation" if self.pid == "C06" else "disagreement", "key": self.pid + ":table",
                             "what": "the real get/set bit functions differ from the model on the exhaustive table: model `%s` vs implementation `%s`" % (td[1], td[2]) if td else "table probe produced nothing",
                             "payload": {"table_line": td}})
        for r in results:
            steps += len(r["impl"])
            key = core.digest([r["scenario"][:-3], r["schedule"]])
            if key not in distinct:
                distinct.add(key)
                if any("ret recv some" in l for l in r["impl"]) or any(l.endswith("s") for l in r["schedule"]):
                    nontrivial += 1
            dist["end:" + r["status"]] = dist.get("end:" + r["status"], 0) + 1
            for tag, name in ((" = fail", "cas_fail"), ("ret recv some", "recv_some"), ("ret recv none", "recv_none"), (" drop ", "drops"), ("PANIC", "panic")):
                cnt = sum(1 for l in r["impl"] if tag in l)
                if cnt:
                    dist[name] = dist.get(name, 0) + cnt
            nest = sum(1 for l in r["scenario"] if " nested " in l)
            dist["nested_sends"] = dist.get("nested_sends", 0) + nest
            probs = ch.monitors(r["scenario"], r["impl"], r["status"]).get(self.pid, [])
            d = core.first_diff(r["model"] + [r["model_end"]], r["impl"] + [r["status"]])
            payload = {"scenario": r["scenario"], "schedule": r["schedule"], "impl": r["impl"], "model": r["model"]}
            if probs:
                failures.append({"kind": "violation", "key": "%s:ch:%s" % (self.pid, core.digest(probs[0].split(":")[-1][:40])),
                                 "what": "channel schedule (%d steps): %s" % (len(r["schedule"]), probs[0]), "payload": payload})
            elif d is not None:
                failures.append({"kind": "disagreement", "key": self.pid + ":chdiff",
                                 "what": "channel step trace differs from the model at line %d: model `%s` vs implementation `%s`" % d, "payload": payload})
        # search for a failing input with real concurrency (real threads + a real signal handler
        # nesting sends) when the step trace no longer matches but no monitor fired; always in thorough
        stress = None
        if tier != "quick" or (any(f["kind"] == "disagreement" for f in failures) and not any(f["kind"] == "violation" for f in failures)):
            import subprocess
            p = subprocess.run([core.HARNESS_BIN, "channel-stress", "1500" if tier == "quick" else "6000"], capture_output=True, text=True, timeout=120)
            stress = p.stdout.splitlines()
            dist["stress"] = stress[0] if stress else "no output (exit %d)" % p.returncode
            sprobs = [l[8:] for l in stress if l.startswith("PROBLEM ")]
            if p.returncode != 0 and not sprobs:
                sprobs = ["stress run died with exit status %d" % p.returncode]
            want = {"C06": ("reordered", "duplicated", "leaked"), "C07": ("dropped twice", "leaked"), "C08": ("panicked", "died"), "C03": ("panicked", "died")}[self.pid]
            mine = [x for x in sprobs if any(w in x for w in want)]
            if mine:
                failures.append({"kind": "violation", "key": self.pid + ":stress",
                                 "what": "unscheduled stress run (4 producers, 1 consumer, sends nested in a real SIGUSR1 handler): " + "; ".join(mine[:3]),
                                 "payload": {"stress": stress, "replay_cmd": "harness/target/debug/sighook-harness channel-stress 1500"}})
        # sequential long histories (tens of thousands of operations, both ways of building a channel): what a
        # scheduled scenario of a few dozen steps cannot reach, e.g. a counter that wraps
        import subprocess
        n_long = 70000 if tier == "quick" else 200000
        p = subprocess.run([core.HARNESS_BIN, "channel-long", str(n_long)], capture_output=True, text=True, timeout=300)
        long_lines = [l for l in p.stdout.splitlines() if l.startswith("long ")]
        dist["long_histories"] = len(long_lines)
        want_long = ["long default=false overflow-kept=[0, 1, 2, 3, 4] rounds-ok=%d/%d" % (n_long, n_long),
                     "long default=true overflow-kept=[0, 1, 2, 3, 4] rounds-ok=%d/%d" % (n_long, n_long)]
        if long_lines != want_long:
            bad = next((l for l in long_lines if l not in want_long), "exit %d: %s" % (p.returncode, p.stderr[-200:]))
            is_panic = "PANIC" in bad or p.returncode != 0
            mine = (self.pid == "C08" and is_panic) or (self.pid == "C06" and not is_panic) or (self.pid == "C07" and not is_panic and not long_lines)
            failures.append({"kind": "violation" if mine else "disagreement", "key": self.pid + ":long",
                             "what": "sequential history (5 sends, %d sends onto the full channel, drain; then %d send/recv rounds): expected the first five values in order and every round to hand its value back, got `%s`" % (n_long, n_long, bad),
                             "payload": {"long": long_lines, "n": n_long}})
        # the real channel, unshimmed, under Miri: a C11 interpreter with weak-memory emulation (a relaxed load may
        # return an older value) and a data-race detector working from the orderings the code declares - the one
        # place where stale reads are exercised on the implementation and not only in the model. C07 always (six
        # seeds in the quick tier), the others in the thorough tier.
        nmiri = 0
        if self.pid == "C07" or tier != "quick":
            nmiri, mf, note = ch.miri_stage(self.pid, tier)
            dist["miri"] = note
            failures += mf
        uniq = {}
        for f in failures:
            uniq.setdefault(f["key"], f)
        return {"evaluations": len(results) + len(timpl) + nmiri, "distinct_nontrivial": nontrivial,
                "rule": "random scenarios (2-4 threads of send/recv bursts up to 7, sends nested on threads that are mid-send/recv as a signal handler would be) on the real Channel under the deterministic scheduler with injected spurious weak-CAS failures; every atomic operation (site, orderings, values) and cell access compared with the Lean model on the same schedule; FIFO / ownership / vector-clock race / drop-once / step-bound monitors on the implementation trace; plus the exhaustive get/set table (2^16 x 5 x 8) by checksum; plus the unshimmed channel under Miri (C11 interpreter: weak-memory emulation, data-race detector; two senders / two receivers / drop with values queued; per-producer order, no duplicates, every value dropped once) for a range of scheduler seeds; plus sequential long histories (an overflowing burst of tens of thousands of sends, then as many send/recv rounds) on channels built by new() and by Default; 40% of the scheduled scenarios use a Default-built channel; non-trivial = a value was received or a spurious failure was injected",
                "samples": [{"scenario": results[0]["scenario"], "schedule": " ".join(results[0]["schedule"]), "trace": results[0]["impl"][:14]}] if results else [],
                "traces_validated_against_impl": len(results), "steps_compared": steps, "distribution": dist,
                "table_rows": 65536 * 5 * 9, "failures": list(uniq.values())}

    def replay(self, payload):
        if payload.get("miri"):
            k = payload.get("seed") or 0
            ok, text = ch.miri_run("%d..%d" % (k, k + 1))
            return not ok, text[-3000:]
        if "long" in payload:
            import subprocess
            p = subprocess.run([core.HARNESS_BIN, "channel-long", str(payload["n"])], capture_output=True, text=True, timeout=300)
            bad = "PANIC" in p.stdout or p.returncode != 0 or any("overflow-kept=[0, 1, 2, 3, 4] rounds-ok=%d/%d" % (payload["n"], payload["n"]) not in l for l in p.stdout.splitlines() if l.startswith("long "))
            return bad, p.stdout
        if "stress" in payload:
            import subprocess
            p = subprocess.run([core.HARNESS_BIN, "channel-stress", "3000"], capture_output=True, text=True, timeout=120)
            return "PROBLEM" in p.stdout or p.returncode != 0, p.stdout
        if "scenario" not in payload:
            ti, tm = self.table()
            d = core.first_diff(tm, ti)
            return d is not None, "table: %s" % (d,)
        sc = [l for l in payload["scenario"] if not l.startswith("seed")] + ["schedule " + " ".join(payload["schedule"])]
        r = ch.run_batch([sc])[0]
        probs = ch.monitors(r["scenario"], r["impl"], r["status"]).get(self.pid, [])
        d = core.first_diff(r["model"], r["impl"])
        return bool(probs) or d is not None, "\n".join(r["impl"] + [r["status"]] + probs + (["first difference to model: %s" % (d,)] if d else []))


class C06(ChannelCheck):
    pid = "C06"
    prop_module = "SigHook.Props.C06"
    extra_modules = ("SigHook.Props.Packed", "SigHook.Props.C06b")


class C07(ChannelCheck):
    pid = "C07"
    prop_module = "SigHook.Props.C07"
    extra_modules = ("SigHook.Props.Packed", "SigHook.Props.C07b")


class C08(ChannelCheck):
    pid = "C08"
    prop_module = "SigHook.Props.C08"
    extra_modules = ("SigHook.Props.Packed", "SigHook.Props.C08b")
