"""C13 — self-pipe wake: forked probes with syscall logging vs the L9 model."""
import re
from . import core
from .runner import PropCheck
from .c14 import split_blocks

KINDS = ["pipe", "stream", "dgram"]


def blocks_all(rng, tier):
    blocks = []
    bursts = [1, 3, 40] if tier == "quick" else [1, 2, 5, 300, 3000]
    for k in KINDS:
        for nb in (0, 1):
            for full in (0, 1):
                for how in ("own", "raw"):
                    for n in bursts:
                        blocks.append(["mk %s %d %d" % (k, nb, full), "reg %s 10" % how, "raise %d" % n, "drain",
                                       "raise %d" % rng.randint(1, 4), "drain", "unreg", "raise 1", "final"])
                    # rejected registrations: forbidden and OS-rejected numbers
                    for bad in (9, 11, 100, -1):
                        blocks.append(["mk %s %d %d" % (k, nb, full), "reg %s %d" % (how, bad), "final"])
    # close() interrupted by a signal: on Linux the descriptor is released all the same, so "exactly once" means
    # that nobody closes it again - when the action is removed, and when a registration is rejected
    for k in KINDS:
        for how in ("own", "raw"):
            blocks.append(["mk %s 0 0" % k, "reg %s 10" % how, "raise 2", "eintr-close", "unreg", "raise 1", "final"])
            blocks.append(["mk %s 0 0" % k, "eintr-close", "reg %s 100" % how, "final"])
            # the write end is descriptor 0: owned (and closed on removal or refusal) or borrowed exactly as any other
            blocks.append(["mk %s 0 0" % k, "fd0", "reg %s 10" % how, "raise 2", "drain", "unreg", "final"])
            blocks.append(["mk %s 0 0" % k, "fd0", "reg %s 100" % how, "final"])
    # a descriptor that is no socket and refuses F_SETFL (O_PATH): the registration is rejected by the
    # error of `set_flags` and the descriptor handed over must still be closed exactly once
    for how in ("raw", "own"):
        blocks.append(["mk opath 0 0", "reg %s 10" % how, "final"])
        blocks.append(["mk opath 0 0", "reg %s 10" % how, "raise 2", "unreg", "final"])
    # two registrations (two signals) share one open file description through dup(): taking one of them away
    # must leave the other one's wake-up non-blocking, also on a full descriptor
    for k in KINDS:
        for how in ("own", "raw"):
            for full in (0, 1):
                blocks.append(["mk %s 0 %d" % (k, full), "reg %s 10" % how, "reg2 %s 12" % how, "raise 2", "raise2 2", "unreg", "raise2 3", "final"])
                blocks.append(["mk %s 0 %d" % (k, full), "reg %s 10" % how, "reg2 %s 12" % how, "unreg2", "raise 3", "final"])
    return blocks


def run_blocks(blocks):
    # the model needs the measured capacity: run the implementation first
    text = "\n---\n".join("\n".join(b) for b in blocks) + "\n---\n"
    rc, impl, err = core.run_harness("pipes", text, timeout=600)
    if rc != 0:
        raise core.Broken("pipes-harness", "exit %d %s" % (rc, err[-300:]))
    # the dup of the second registration gets whatever number is free: call it D
    impl = [re.sub(r"\bfd\d+\b", "D", l) for l in impl]
    ib = split_blocks(impl)
    mtext = []
    for b, i in zip(blocks, ib):
        cap = next((re.search(r"cap=(\d+)", l).group(1) for l in i if l.startswith("made")), "0")
        mtext.append("\n".join((op + " " + cap) if op.startswith("mk") else op for op in b))
    model = core.run_driver("pipes", "\n---\n".join(mtext) + "\n---\n", timeout=600)
    return ib, split_blocks(model)


def monitor(block, impl):
    probs = []
    registered, closed, closes = False, False, 0
    shared = any(op.startswith("reg2") for op in block)
    since_drain = 0
    was_full = False
    for l in impl:
        t = l.strip()
        if t.startswith("made"):
            m = re.search(r"cap=(\d+) fill=(\d+)", t)
            was_full = m.group(1) == m.group(2)
        if t.startswith("sys close W"):
            closes += 1; closed = True
        if t.startswith(("sys write W", "sys send W len=1")) and closed:
            probs.append("the descriptor is written to after it was closed: `%s`" % t)
        if t.startswith("WOULD-BLOCK") or "BLOCKING" in t and t.startswith("sys"):
            probs.append("a delivery makes a call that can block on the self-pipe: `%s`" % t)
        if t == "ok":
            registered = True
        if t.startswith("raised") and registered and (not closed or shared):
            f = dict(x.split("=") for x in t.split()[2:]) if "=" in t else {}
            n = int(t.split()[1])
            since_drain += n
            if f and (int(f["attempts"]) != n):
                probs.append("%d deliveries made %s write attempts (exactly one each expected)" % (n, f["attempts"]))
            if f and (f["wouldblock"] != "0" or f["blocking_calls"] != "0" or f["slow"] != "0"):
                probs.append("deliveries on a %s self-pipe did not return promptly / used a call that may block: `%s`" % ("full" if was_full else "non-full", t))
        if t.startswith("bytes=") and registered:
            got = int(t.split("=")[1])
            if not was_full and got > since_drain:
                probs.append("the reader saw %d bytes after %d deliveries" % (got, since_drain))
            if since_drain > 0 and got == 0:
                probs.append("the reader saw no byte although %d deliveries happened since it last drained" % since_drain)
            since_drain = 0
            was_full = False
        if t.startswith("unregistered=true") and "fd=closed" not in t:
            probs.append("the descriptor is still open after its action was removed")
        if t.startswith(("panic", "err")) and not registered:
            pass
        if t.startswith("fd=") and (any(x.startswith(("panic", "err")) for x in impl) or any(x.startswith("unregistered=true") for x in impl)):
            if t != "fd=closed":
                probs.append("the descriptor was not closed after the registration was rejected / removed")
    if closes > 1:
        probs.append("the descriptor was closed %d times" % closes)
    ex = next((l for l in impl if l.startswith("exit")), "exit ?")
    if ex != "exit continues":
        probs.append("the probe did not survive: %s" % ex)
    return probs


class C13(PropCheck):
    pid = "C13"
    prop_module = "SigHook.Props.C13"
    assumptions = [
        "kernel behaviour table of Model/Pipe.lean (zero-length send per kind/fill, one-byte write/send with/without room, O_NONBLOCK / MSG_DONTWAIT), validated by these probes on this kernel",
        "descriptor capacity measured on the very descriptor of each probe",
        "ownership of the action (released exactly once, by the remover, never in a handler) is C01/C14; here: exactly one close() on the descriptor per probe and no write after it",
    ]

    def correspond(self, tier, seed, rng):
        blocks = blocks_all(rng, tier)
        chunks = [blocks[i::core.NPROC] for i in range(core.NPROC)]
        res = core.pmap(run_blocks, chunks)
        failures, dist, nontrivial = [], {}, 0
        for ch, (ib, mb) in zip(chunks, res):
            for b, i, m in zip(ch, ib, mb):
                dist[b[0].split()[1] + (":full" if b[0].endswith("1") else ":empty")] = dist.get(b[0].split()[1] + (":full" if b[0].endswith("1") else ":empty"), 0) + 1
                if any(l.startswith("raised") and "attempts" in l for l in i):
                    nontrivial += 1
                probs = monitor(b, i)
                payload = {"ops": b, "impl": i, "model": m}
                if probs:
                    failures.append({"kind": "violation", "key": "C13:" + core.digest([b[0], probs[0][:50]]),
                                     "what": "ops `%s`: %s" % ("; ".join(b), probs[0]), "payload": payload})
                elif i != m:
                    d = core.first_diff(m, i)
                    failures.append({"kind": "disagreement", "key": "C13:diff:" + b[0],
                                     "what": "ops `%s`: model `%s` vs implementation `%s`" % ("; ".join(b), d[1], d[2]), "payload": payload})
        uniq = {}
        for f in failures:
            uniq.setdefault(f["key"], f)
        return {"evaluations": len(blocks), "distinct_nontrivial": nontrivial,
                "rule": "every descriptor kind (pipe, stream socket, datagram socket) x blocking / non-blocking x empty / filled to capacity x pipe::register (owned) / register_raw x burst lengths, plus rejected registrations (forbidden, OS-rejected numbers), each in a forked child with every system call on the descriptor logged through the shim and a would-block detector; real raise() bursts, bytes read back, descriptor validity and close count; compared with the L9 model and judged by the property monitor; non-trivial = at least one delivery",
                "samples": [{"ops": blocks[0], "impl": res[0][0][0]}], "traces_validated_against_impl": len(blocks),
                "distribution": dist, "exhaustive": True, "failures": list(uniq.values())[:10]}

    def replay(self, payload):
        ib, mb = run_blocks([payload["ops"]])
        probs = monitor(payload["ops"], ib[0])
        return bool(probs) or ib[0] != mb[0], "ops: %s\nimpl:\n%s\nmodel:\n%s\n%s" % (payload["ops"], "\n".join(ib[0]), "\n".join(mb[0]), "\n".join(probs))
