"""C15 — flags and conditional shutdown: forked histories vs the L7 model."""
from . import core
from .runner import PropCheck
from .c14 import split_blocks


def gen_block(rng):
    ops = []
    nb, nu = rng.randint(1, 3), rng.randint(0, 2)
    # registrations first (any order incl. shutdown before/after the arming flag), then a history
    regs = []
    for k in range(nb):
        if rng.random() < 0.8:
            regs.append("flag b%d" % k)
        if rng.random() < 0.6:
            regs.append("shutdown %d b%d" % (rng.choice([0, 1, 2, 42, 255, 256, 300, 1000, -1]), k))
    for k in range(nu):
        regs.append("usize u%d %d" % (k, rng.randint(1, 99)))
    if not regs:
        regs.append("flag b0")
    rng.shuffle(regs)
    if rng.random() < 0.3:
        # the documented pattern: shutdown first, arming flag second, on one flag
        st = rng.choice([1, 42, 130, 255])
        regs = ["shutdown %d b0" % st, "flag b0"] + [r for r in regs if not r.endswith("b0")]
    if rng.random() < 0.35:
        # a raw action that raises the signal again from inside the delivery, somewhere in the list
        regs.insert(rng.randint(0, len(regs)), "reraiser")
    if rng.random() < 0.3:
        # a second thread in the process (a shutdown ends the process, not one thread)
        regs.insert(0, "thread")
    ops += regs
    nregs = sum(1 for r in regs if r.split()[0] in ("flag", "usize", "shutdown"))
    unregs = rng.random() < 0.35
    if unregs and rng.random() < 0.5:
        # more actions first, so that a removal in the middle has something to disturb
        for _ in range(rng.randint(1, 3)):
            ops.append(rng.choice(["flag b%d" % rng.randint(0, nb - 1), "usize u9 %d" % rng.randint(1, 9)])); nregs += 1
    for _ in range(rng.randint(1, 7)):
        r = rng.random()
        if unregs and r < 0.3:
            ops.append("unreg %d" % rng.randint(0, nregs)); continue
        if r < 0.55:
            ops.append("raise")
        elif r < 0.85:
            ops.append("set b%d %d" % (rng.randint(0, nb - 1), rng.choice([0, 0, 1])))
        elif nu:
            ops.append("set u%d %d" % (rng.randint(0, nu - 1), rng.randint(0, 200)))
    ops.append("raise")
    return ops


def run_blocks(blocks):
    text = "\n---\n".join("\n".join(b) for b in blocks) + "\n---\n"
    rc, impl, err = core.run_harness("flags", text, timeout=300)
    if rc != 0:
        raise core.Broken("flags-harness", "exit %d %s" % (rc, err[-300:]))
    model = core.run_driver("flags", text, timeout=300)
    return split_blocks(impl), split_blocks(model)


def monitor(block, impl):
    """the property on the implementation's own answers (independent of the model)"""
    probs = []
    flags, regs, nreg = {}, [], 0     # flag -> value ; registered actions in order (with their registration number)
    reraise = False
    out = [l for l in impl]
    pos = 0
    dead = None
    for op in block:
        w = op.split()
        if dead is not None:
            break
        res = out[pos] if pos < len(out) else "<missing>"
        if w[0] == "flag":
            regs.append(("set", w[1], 1, nreg)); nreg += 1; flags.setdefault(w[1], 0)
        elif w[0] == "usize":
            regs.append(("set", w[1], int(w[2]), nreg)); nreg += 1; flags.setdefault(w[1], 0)
        elif w[0] == "shutdown":
            regs.append(("shut", w[2], int(w[1]), nreg)); nreg += 1; flags.setdefault(w[2], 0)
        elif w[0] == "unreg":
            # the k-th registration goes away; the others keep their order
            k = int(w[1])
            live = [r for r in regs if r[3] == k]
            want = "ok" if live else ("gone" if k < nreg else "bad-op")
            if res != want:
                probs.append("ops `%s`: `%s` answered `%s`, expected `%s`" % ("; ".join(block), op, res, want))
            regs = [r for r in regs if r[3] != k]
        elif w[0] == "set":
            flags[w[1]] = (1 if int(w[2]) else 0) if w[1][0] == "b" else int(w[2])
        elif w[0] == "reraiser":
            reraise = True
        elif w[0] == "raise":
            # what must happen: one delivery, or two back to back when a raw action raises the
            # (blocked) signal again from inside the first
            cur = dict(flags)
            want_exit = None
            for _round in range(2 if reraise else 1):
                for kind, f, v, _n in regs:
                    if kind == "set":
                        cur[f] = v
                    elif cur.get(f, 0) != 0:
                        want_exit = v % 256
                        break
                if want_exit is not None:
                    break
            reraise = False
            if want_exit is not None:
                dead = want_exit
                tail = out[pos:]
                if "ATEXIT-HOOK-RAN" in tail:
                    probs.append("conditional shutdown ran exit-time hooks")
                ex = next((l for l in tail if l.startswith("exit ")), "exit ?")
                if ex != "exit exit:%d" % want_exit and not (want_exit == 0 and ex == "exit continues"):
                    probs.append("ops `%s`: the condition was true, the process must end with status %d; observed `%s` after `%s`" % ("; ".join(block), want_exit, ex, res))
                break
            else:
                if not res.startswith("alive"):
                    ex = next((l for l in out[pos:] if l.startswith("exit ")), res)
                    probs.append("ops `%s`: no shutdown condition was true at delivery #%d, yet the process did not survive it (`%s`)" % ("; ".join(block), block[:block.index(op) + 1].count("raise"), ex))
                    break
                got = dict(x.split("=") for x in res.split()[1:])
                for f, v in cur.items():
                    if f in got and int(got[f]) != v:
                        probs.append("ops `%s`: after delivery flag %s must hold %d, holds %s" % ("; ".join(block), f, v, got[f]))
                flags = cur
        pos += 1
    return probs


class C15(PropCheck):
    pid = "C15"
    prop_module = "SigHook.Props.C15"
    extra_modules = ("SigHook.Props.C15b",)
    assumptions = [
        "actions of one signal run in registration order (C02/C05); raise() delivers synchronously",
        "exit status observed through waitpid of a forked child; an atexit hook in the child writes a marker if exit-time hooks run",
        "the flags are the caller's own std atomics (not shimmed); their SeqCst orderings are checked from the regenerated table only",
    ]

    def correspond(self, tier, seed, rng):
        n = 400 if tier == "quick" else 20000
        blocks = [gen_block(rng) for _ in range(n)]
        chunks = [blocks[i::core.NPROC] for i in range(core.NPROC)]
        res = core.pmap(run_blocks, chunks)
        failures, dist, nontrivial = [], {}, 0
        for ch, (ib, mb) in zip(chunks, res):
            for b, i, m in zip(ch, ib, mb):
                m = [l for l in m if l != ""]
                ex = next((l for l in i if l.startswith("exit")), "exit ?")
                dist[ex.split(":")[0]] = dist.get(ex.split(":")[0], 0) + 1
                if ex.startswith("exit exit:") and any(l.startswith("alive") for l in i):
                    nontrivial += 1
                probs = monitor(b, i)
                payload = {"ops": b, "impl": i, "model": m}
                if probs:
                    failures.append({"kind": "violation", "key": "C15:" + core.digest(probs[0].split("`")[-2] if "`" in probs[0] else probs[0]), "what": probs[0], "payload": payload})
                elif i != m:
                    d = core.first_diff(m, i)
                    failures.append({"kind": "disagreement", "key": "C15:diff", "what": "ops `%s`: model `%s` vs implementation `%s`" % ("; ".join(b), d[1], d[2]), "payload": payload})
        uniq = {}
        for f in failures:
            uniq.setdefault(f["key"], f)
        fl = list(uniq.values())
        return {"evaluations": len(blocks), "distinct_nontrivial": nontrivial,
                "rule": "random histories on the real flag::register / register_usize / register_conditional_shutdown (1-3 bool flags, 0-2 usize flags, any registration order incl. the documented shutdown-first/arming-flag-second pattern, statuses 0..1000 and negative) interleaving application writes and real raise()s, one forked child each with an atexit marker; compared with the L7 model and judged by the property monitor; non-trivial = survived at least one delivery and was terminated by a later one",
                "samples": [{"ops": blocks[0], "impl": res[0][0][0]}], "traces_validated_against_impl": len(blocks),
                "distribution": dist, "failures": fl[:8]}

    def replay(self, payload):
        ib, mb = run_blocks([payload["ops"]])
        probs = monitor(payload["ops"], ib[0])
        return bool(probs) or ib[0] != [l for l in mb[0] if l], "ops: %s\nimpl: %s\nmodel: %s\n%s" % (payload["ops"], ib[0], mb[0], "\n".join(probs))
