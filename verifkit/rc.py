"""Registry-level step scenarios (L6): generator, runner, canonicalisation, trace monitors."""
import re
from . import core

SIGS = [10, 12, 14, 15]


def gen_unregrace(rng):
    """several threads remove the SAME registration concurrently (plus a writer and deliveries)"""
    lines = []
    sg = rng.choice(SIGS)
    tags = [100, 101, 102][:rng.randint(1, 3)]
    for tg in tags:
        lines.append("setup reg %d %d" % (sg, tg))
    tid = 0
    victim = rng.choice(tags)
    for _ in range(rng.randint(2, 3)):
        lines.append("t%d unreg @%d" % (tid, victim))
        if rng.random() < 0.3:
            lines.append("t%d unreg @%d" % (tid, rng.choice(tags)))
        tid += 1
    if rng.random() < 0.7:
        lines.append("t%d reg %d %d" % (tid, sg, 110)); lines.append("t%d unreg @110" % tid); tid += 1
    if rng.random() < 0.6:
        lines.append("t%d deliver %d" % (tid, sg)); tid += 1
    lines.append("seed %d" % rng.randint(1, 2**31))
    lines.append("maxsteps 4000")
    return lines


def gen_deep(rng):
    """three to five actions on one signal, one that is neither the last nor the only one is removed (or two
    are, in either order), then deliveries: what is left must run in registration order, and every id must stay
    removable - whatever the container of the actions does to its other entries on a removal"""
    sg = rng.choice(SIGS)
    n = rng.randint(3, 5)
    tags = list(range(100, 100 + n))
    lines = ["setup reg %d %d" % (sg, t) for t in tags]
    victims = rng.sample(tags[:-1], rng.randint(1, min(2, n - 1)))
    lines += ["t0 unreg @%d" % v for v in victims]
    if rng.random() < 0.5:
        lines.append("t0 unreg @%d" % rng.choice([t for t in tags if t not in victims]))
    if rng.random() < 0.5:
        lines.append("t0 reg %d %d" % (sg, 100 + n))
    if rng.random() < 0.4:
        # every action of the signal is removed at once, new ones are registered, and a holder of an old id uses it
        # again: that is a no-op, whatever ids the new actions were given
        lines.append("t0 unregsig %d" % sg)
        for k in range(rng.randint(1, 3)):
            lines.append("t0 reg %d %d" % (sg, 200 + k))
        for v in rng.sample(tags, rng.randint(1, 2)):
            lines.append("t0 unreg @%d" % v)
    lines.append("t1 deliver %d" % sg)
    lines.append("t1 deliver %d" % sg)
    if rng.random() < 0.5:
        lines.append("t2 nested t0 deliver %d" % sg)
        lines.append("delay t2 %d" % rng.randint(1, 40))
    lines.append("seed %d" % rng.randint(1, 2**31))
    lines.append("maxsteps 4000")
    return lines


def gen_scenario(rng, profile="mixed"):
    if profile == "unregrace":
        return gen_unregrace(rng)
    if profile == "mixed" and rng.random() < 0.1:
        return gen_deep(rng)
    lines = []
    sigs = rng.sample(SIGS, rng.randint(1, 3))
    tag = 100
    known = []          # tags registered in setup
    for sg in sigs:
        r = rng.random()
        if profile == "chain" or r < 0.45:
            lines.append("setup foreign %d %s" % (sg, rng.choice(["h1:%d" % rng.randint(0, 7), "h3:%d" % rng.randint(0, 7), "h3:%d" % rng.randint(0, 7), "ign",
                                                                  "ign+4"])))   # SIG_IGN installed with SA_SIGINFO set: still "ignore"
    for sg in sigs:
        if rng.random() < (0.25 if profile == "chain" else 0.55):
            for _ in range(rng.randint(1, 2)):
                lines.append("setup reg %d %d" % (sg, tag)); known.append(tag); tag += 1
    nthreads = rng.randint(2, 4)
    tid = 0
    mutators = []
    for _ in range(nthreads):
        kind = rng.random()
        if kind < (0.9 if profile == "mutators" else 0.55):
            mine = []
            for _ in range(rng.randint(1, 3)):
                r = rng.random()
                sg = rng.choice(sigs)
                if r < 0.5:
                    lines.append("t%d %s %d %d" % (tid, rng.choice(["reg", "reg", "regu"]), sg, tag)); mine.append(tag); tag += 1
                elif r < 0.78 and (known or mine):
                    lines.append("t%d unreg @%d" % (tid, rng.choice(known + mine)))
                elif r < (0.9 if profile == "mutators" else 0.86):
                    lines.append("t%d unregsig %d" % (tid, sg))
                elif r < 0.96:
                    # numbers the OS refuses a handler for (incl. SIGKILL / SIGSTOP through the unchecked entry:
                    # the query succeeds, the installation fails) and numbers it does not know at all
                    lines.append("t%d %s %d %d" % (tid, rng.choice(["reg", "regu", "regu"]), rng.choice([9, 19, 9, 19, 100, 0, -1, 65]), tag)); tag += 1
                else:
                    lines.append("t%d reg %d %d" % (tid, rng.choice([4, 8, 11]), tag)); tag += 1
            mutators.append(tid)
        else:
            # many short deliveries: most land before the disposition switches (`notours`), the rest
            # spread over the registration's steps
            for _ in range(rng.randint(1, 3) if profile != "chain" else rng.randint(3, 7)):
                lines.append("t%d deliver %d" % (tid, rng.choice(sigs)))
        tid += 1
    for h in mutators:
        # deliveries nested on the mutator's own thread start at a uniformly chosen step of it
        k = (1 if rng.random() < 0.6 else 0) if profile != "chain" else rng.randint(1, 3)
        for _ in range(k):
            lines.append("t%d nested t%d deliver %d" % (tid, h, rng.choice(sigs)))
            if rng.random() < 0.8:
                # not before global step n: lands anywhere inside the host's operations (e.g. between the
                # installation of the dispatcher and the publication of the slot of a first registration)
                lines.append("delay t%d %d" % (tid, rng.randint(1, 14 * nthreads)))
            tid += 1
    if not mutators:
        lines.append("t%d reg %d %d" % (tid, sigs[0], tag)); tid += 1
    lines.append("seed %d" % rng.randint(1, 2**31))
    lines.append("maxsteps 4000")
    return lines


def window_sweep(rng):
    """a first registration of a signal that has a pre-existing handler (each calling convention, or
    ignore), with one delivery of that signal nested on the registering thread - or running on another
    thread - from every step of the registration on: some of them land between the installation of
    the library's handler and the publication of the slot"""
    out = []
    for kind in ("h1:3", "h3:5", "ign", "ign+4"):
        for sg in (10, 15):
            for d in range(2, 40, 2):
                for nested in (True, False):
                    lines = ["setup foreign %d %s" % (sg, kind), "t0 reg %d 100" % sg]
                    lines.append(("t1 nested t0 deliver %d" % sg) if nested else ("t1 deliver %d" % sg))
                    lines.append("delay t1 %d" % d)
                    lines.append("seed %d" % rng.randint(1, 2**31))
                    lines.append("maxsteps 4000")
                    out.append(lines)
    return out


def fallback_overwrite_sweep(rng):
    """a delivery of signal A starts inside A's first registration (A has a pre-existing handler) and is parked
    after each of its first few reads while the registering thread finishes A and goes on to the first
    registration of another signal, which overwrites `race_fallback`: the delivery must still chain A's handler,
    once - whatever it had read before it was parked"""
    out = []
    for kind in ("h3:5", "h1:3"):
        for d in range(2, 40, 3):
            for j in range(1, 9):
                out.append(["setup foreign 10 %s" % kind, "t0 reg 10 100", "t0 reg 12 101", "t1 deliver 10",
                            "delay t1 %d" % d, "holdat t1 %d 400" % j, "seed %d" % rng.randint(1, 2**31), "maxsteps 4000"])
    return out


DROP = re.compile(r"^(t\d+ (?:H )?)drop-action (\d+)$")


def canon(lines):
    """merge consecutive `drop-action <tag>` lines of one thread into one sorted list line"""
    out, cur, pfx = [], [], None
    def flush():
        nonlocal cur, pfx
        if cur:
            out.append("%sdrop-action [%s]" % (pfx, ",".join(str(x) for x in sorted(cur))))
        cur, pfx = [], None
    for l in lines:
        m = DROP.match(l)
        if m:
            if pfx is not None and pfx != m.group(1):
                flush()
            pfx = m.group(1); cur.append(int(m.group(2)))
        else:
            flush(); out.append(l)
    flush()
    return out


def run_one(scenario):
    text = "\n".join(scenario) + "\n"
    rc, out, err = core.run_harness("regconc", text, timeout=15)
    if rc != 0:
        return {"scenario": scenario, "impl": out, "model": [], "schedule": [], "status": "END crash rc=%d %s" % (rc, err[-200:]), "model_end": "END ?"}
    sched = next((l for l in out if l.startswith("SCHEDULE")), "SCHEDULE")
    status = next((l for l in out if l.startswith("END")), "END ?")
    blocked = [l for l in out if l.startswith("BLOCKED")]
    if blocked:
        status += " (" + "; ".join(blocked) + ")"
    obs = canon([l for l in out if not l.startswith("SCHEDULE") and not l.startswith("END") and not l.startswith("BLOCKED")])
    dtext = "\n".join([l for l in scenario if not l.startswith("schedule")] + ["schedule " + " ".join(sched.split()[1:]), "---"]) + "\n"
    mout = core.run_driver("regconc", dtext, timeout=120)
    mobs = [l for l in mout if not l.startswith("END") and l != "---"]
    mend = next((l for l in mout if l.startswith("END")), "END ?")
    return {"scenario": scenario, "impl": obs, "model": mobs, "schedule": sched.split()[1:], "status": status, "model_end": mend}


def run_many(scenarios):
    return core.pmap(run_one, scenarios)


# ------------------------------------------------------------------ trace monitors
LINE = re.compile(r"^t(\d+) (H )?(.*)$")


def parse(trace):
    ev = []
    for i, l in enumerate(trace):
        m = LINE.match(l)
        if m:
            ev.append((i, int(m.group(1)), bool(m.group(2)), m.group(3)))
    return ev


class Spec:
    """the simple registry model, advanced at each mutator's publication (swap of data.data)"""
    def __init__(self, scenario):
        self.acts = {}        # sig -> list of tags in registration order
        self.sig_of = {}      # tag -> sig
        self.foreign = {}
        for l in scenario:
            w = l.split()
            if w[0] == "setup":
                if w[1] == "foreign":
                    self.foreign[int(w[2])] = w[3].split("~")[0].split("+")[0]
                elif w[1] in ("reg", "regu"):
                    sg, tg = int(w[2]), int(w[3])
                    if w[1] == "reg" and sg in (9, 19, 4, 8, 11):
                        continue
                    self.acts.setdefault(sg, []).append(tg); self.sig_of[tg] = sg
                elif w[1] == "unreg":
                    tg = int(w[2][1:])
                    for k in self.acts:
                        if tg in self.acts[k]:
                            self.acts[k].remove(tg)

    def apply(self, call):
        w = call.split()
        if w[0] in ("reg", "regu"):
            sg, tg = int(w[1]), int(w[2])
            self.acts.setdefault(sg, []).append(tg); self.sig_of[tg] = sg
        elif w[0] == "unreg":
            tg = int(w[1][1:])
            for k in self.acts:
                if tg in self.acts[k]:
                    self.acts[k].remove(tg)
        elif w[0] == "unregsig":
            self.acts[int(w[1])] = []

    def tags(self, sig):
        return list(self.acts.get(sig, []))


def monitors(scenario, trace):
    """returns dict property -> list of problem strings, evaluated on one trace"""
    probs = {"C01": [], "C02": [], "C03": [], "C04": [], "C05": [], "C18": []}
    true_count = {}               # tag -> how many unregister calls answered true
    unreg = {}                    # tid -> dict(tag, removed_by_me, absent_seen)
    ev = parse(trace)
    spec = Spec(scenario)
    cur_call = {}                 # tid -> call text
    deliv = {}                    # tid -> dict(sig, start, runs, prevs, snapshot_tags, candidates, steps)
    removed_returned = set()      # tags whose removal has returned
    dropped = {}                  # tag -> count
    taken = set(k for k, v in spec.acts.items() if v is not None and len(v) >= 0 and k in spec.acts)
    for (i, tid, inh, body) in ev:
        if body.startswith("call "):
            cur_call[tid] = body[5:]
            if body.startswith("call unreg @"):
                tg = int(body.split("@")[1])
                unreg[tid] = {"tag": tg, "removed": False, "absent": not any(tg in v for v in spec.acts.values())}
            if body.startswith("call deliver "):
                sg = int(body.split()[2])
                deliv[tid] = {"sig": sg, "runs": [], "prevs": [], "at_load": None, "cands": [spec.tags(sg)], "steps": 0, "lib": False, "bad": []}
            continue
        if tid in deliv and inh:
            d = deliv[tid]
            d["lib"] = True
            d["steps"] += 1
            kind = body.split()[0]
            if kind not in ("load", "fetch_add", "fetch_sub", "prev", "run"):
                probs["C03"].append("step %d: delivery on t%d performs `%s` — a lock / allocation / release / wait / system call inside the signal handler" % (i, tid, body))
            if body.startswith("load data.data"):
                d["at_load"] = spec.tags(d["sig"])
            if body.startswith("fetch_sub data.lock"):
                d["unpinned"] = True          # the read guard on `data` is gone: the snapshot may be released now
            if body.startswith("run "):
                tg = int(body.split()[1])
                d["runs"].append(tg)
                if tg in removed_returned:
                    probs["C01"].append("step %d: action %d runs on t%d after its removal had returned" % (i, tg, tid))
                if dropped.get(tg):
                    probs["C01"].append("step %d: action %d runs on t%d after it was released" % (i, tg, tid))
            if body.startswith("prev "):
                d["prevs"].append((body, len(d["runs"])))
        if body.startswith("HEAP-IN-HANDLER"):
            probs["C03"].append("step %d: the delivery on t%d performed %s heap allocation/release operation(s) inside the signal handler" % (i, tid, body.split()[1]))
        if body.startswith("swap data.data") and not inh:
            call = cur_call.get(tid, "")
            if tid in unreg and call.startswith("unreg @") and any(unreg[tid]["tag"] in v for v in spec.acts.values()):
                unreg[tid]["removed"] = True
            spec.apply(call)
            for u in unreg.values():
                if not any(u["tag"] in v for v in spec.acts.values()):
                    u["absent"] = True
            for d in deliv.values():
                d["cands"].append(spec.tags(d["sig"]))
        if body.startswith("drop-action"):
            tags = [int(x) for x in body[body.index("[") + 1:body.index("]")].split(",") if x]
            for tg in tags:
                dropped[tg] = dropped.get(tg, 0) + 1
                if dropped[tg] > 1:
                    probs["C01"].append("step %d: action %d released twice" % (i, tg))
                if inh:
                    probs["C01"].append("step %d: action %d released inside a signal handler (t%d)" % (i, tg, tid))
                # nobody may still be inside a read section on a snapshot that holds it
                for t2, d in deliv.items():
                    if d.get("at_load") is not None and tg in d["at_load"] and not d.get("done") and not d.get("unpinned"):
                        probs["C01"].append("step %d: action %d released by t%d while the delivery on t%d still has a snapshot containing it pinned" % (i, tg, tid, t2))
        if body.startswith("ret "):
            call = cur_call.get(tid, "")
            if call.startswith("unreg @") and tid in unreg:
                u = unreg.pop(tid)
                if body == "ret bool true":
                    true_count[u["tag"]] = true_count.get(u["tag"], 0) + 1
                    if true_count[u["tag"]] > 1:
                        probs["C05"].append("step %d: unregister of registration %d answered true %d times (t%d is told it removed an action another call had already removed)" % (i, u["tag"], true_count[u["tag"]], tid))
                    elif not u["removed"]:
                        probs["C05"].append("step %d: unregister of registration %d on t%d answered true without having removed it" % (i, u["tag"], tid))
                elif body == "ret bool false" and not u["absent"]:
                    probs["C05"].append("step %d: unregister of registration %d on t%d answered false although the action was registered during the whole call" % (i, u["tag"], tid))
            if call.startswith("unreg @") and body == "ret bool true":
                tg = int(call.split("@")[1])
                removed_returned.add(tg)
                if not dropped.get(tg):
                    probs["C01"].append("step %d: unregister of action %d returned but what it captured has not been released" % (i, tg))
            if call.startswith("deliver") and tid in deliv:
                d = deliv.pop(tid)
                d["done"] = True
                if body == "ret delivered":
                    sg = d["sig"]
                    if d["at_load"] is None:
                        probs["C02"].append("delivery of %d on t%d never loaded the registry" % (sg, tid))
                    elif d["runs"] != d["at_load"]:
                        if d["runs"] in d["cands"]:
                            probs["C02"].append("delivery of %d on t%d ran %s: a state current during the delivery, but not the snapshot it pinned (%s)" % (sg, tid, d["runs"], d["at_load"]))
                        else:
                            probs["C02"].append("delivery of %d on t%d ran %s, which is not the action list of any registry state current during that delivery (candidates %s)" % (sg, tid, d["runs"], d["cands"]))
                    # C04: chained previous handler
                    f = spec.foreign.get(sg)
                    want = f if f and f[0] == "h" else None
                    got = [p for p, _ in d["prevs"]]
                    if want:
                        if len(got) != 1 or got[0] != "prev " + want:
                            probs["C04"].append("delivery of %d on t%d: the pre-existing handler %s was called %d times (%s) instead of exactly once with its own convention and arguments" % (sg, tid, want, len(got), got))
                        elif d["prevs"][0][1] != 0:
                            probs["C04"].append("delivery of %d on t%d: the pre-existing handler was called after %d action(s)" % (sg, tid, d["prevs"][0][1]))
                    elif got:
                        probs["C04"].append("delivery of %d on t%d: %s called although no real handler pre-existed" % (sg, tid, got))
                    bound = 8 + len(d["runs"]) + len(got)
                    if d["steps"] > bound:
                        probs["C03"].append("delivery of %d on t%d took %d own steps (bound %d)" % (sg, tid, d["steps"], bound))
    for tid, d in deliv.items():
        bound = 8 + len(d["runs"]) + len(d["prevs"])
        if d["steps"] > bound:
            probs["C03"].append("delivery of %d on t%d has taken %d own steps without returning (bound %d): it waits for another thread" % (d["sig"], tid, d["steps"], bound))
    return probs
