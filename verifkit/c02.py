"""C02 / C03 / C04 (+ registry level of C01): shared registry-level step correspondence."""
from . import core, rc
from .runner import PropCheck


class RegConcCheck(PropCheck):
    pid = "C02"
    prop_module = "SigHook.Props.C02"
    profile = "mixed"
    n_quick, n_thorough = 300, 20000

    def correspond(self, tier, seed, rng):
        n = self.n_quick if tier == "quick" else self.n_thorough
        scenarios = [rc.gen_scenario(rng, self.profile) for _ in range(n)]
        if self.profile == "chain" or self.pid == "C03":
            # deterministic coverage of the first-registration window, for every kind of predecessor (C03: a
            # delivery that lands there - also on the registering thread itself - must still finish by itself)
            scenarios += rc.window_sweep(rng)
        if self.profile == "chain":
            scenarios += rc.fallback_overwrite_sweep(rng)
        results = rc.run_many(scenarios)
        # search for a failing input (DESIGN 4.1): when the step trace no longer matches the model but
        # the property monitor has not fired, re-run the disagreeing scenario shapes under many more
        # schedules (each step is a scheduling point, so windows are wide) before giving up
        def differs(r):
            return core.first_diff(r["model"] + [r["model_end"]], r["impl"] + [r["status"]]) is not None
        def violates(r):
            return bool(self.problems(r))
        if any(differs(r) for r in results) and not any(violates(r) for r in results):
            shapes = [r["scenario"] for r in results if differs(r)][:40]
            extra = []
            for k in range(2000 if tier == "quick" else 20000):
                sc = [l for l in shapes[k % len(shapes)] if not l.startswith("seed")]
                extra.append(sc[:-1] + ["seed %d" % rng.randint(1, 2**31)] + sc[-1:])
            more = rc.run_many(extra)
            results += more
            self.searched_extra = len(more)
        failures, dist, distinct, nontrivial, steps = [], {}, set(), 0, 0
        for r in results:
            steps += len(r["impl"])
            key = core.digest([r["scenario"][:-2], r["schedule"]])
            overl = any(" H " in l for l in r["impl"]) and any("swap data.data" in l for l in r["impl"])
            if key not in distinct:
                distinct.add(key)
                nontrivial += 1 if overl else 0
            dist["end:" + r["status"]] = dist.get("end:" + r["status"], 0) + 1
            for l in r["impl"]:
                w = l.split()
                k = w[2] if w[1] == "H" else w[1]
                dist[k] = dist.get(k, 0) + 1
            d = core.first_diff(r["model"] + [r["model_end"]], r["impl"] + [r["status"]])
            payload = {"scenario": r["scenario"], "schedule": r["schedule"], "impl": r["impl"], "model": r["model"]}
            mine = self.problems(r)
            if mine:
                failures.append({"kind": "violation", "key": "%s:rc:%s" % (self.pid, core.digest(mine[0].split(":")[-1][:50])),
                                 "what": "registry schedule (%d steps): %s" % (len(r["schedule"]), mine[0]), "payload": payload})
            elif d is not None:
                failures.append({"kind": "disagreement", "key": self.pid + ":rcdiff",
                                 "what": "registry step trace differs from the model at line %d: model `%s` vs implementation `%s`" % d,
                                 "payload": payload})
        uniq = {}
        for f in failures:
            uniq.setdefault(f["key"], f)
        return {"evaluations": len(results), "distinct_nontrivial": nontrivial,
                "rule": "random registry scenarios (setup: foreign handlers + registrations; 2-4 threads of register/unregister/unregister_signal incl. forbidden and OS-rejected numbers, simulated deliveries through the real dispatcher, deliveries nested on mutator threads) under the deterministic PRNG scheduler, one process per scenario; every shim-visible step, action run, chained-handler call, release of captured state and return value is compared with the Lean L6 model replaying the same schedule; the property's trace monitor runs on the implementation trace; non-trivial = a delivery and a publication in the same schedule",
                "samples": [{"scenario": results[0]["scenario"], "schedule": " ".join(results[0]["schedule"]), "trace": results[0]["impl"][:16]}] if results else [],
                "traces_validated_against_impl": len(results), "steps_compared": steps, "distribution": dist,
                "failures": list(uniq.values())}

    def problems(self, r):
        probs = rc.monitors(r["scenario"], r["impl"]).get(self.pid, [])
        if r["status"].startswith("END crash rc=-"):
            # the process running the real code was killed by a signal (SIGSEGV, SIGABRT, ...) under this
            # schedule, where the model runs to completion: a concrete failing input whatever the property
            sig = r["status"].split("rc=-")[1].split()[0]
            probs = probs + ["the process running the real registry under this scenario was killed by signal %s (the model runs to completion)%s" % (
                sig, "; the scenario has a pre-existing disposition: " + "; ".join(l for l in r["scenario"] if l.startswith("setup foreign")) if any(l.startswith("setup foreign") for l in r["scenario"]) else "")]
        if self.pid == "C18" and not r["status"].startswith("END done"):
            probs = probs + ["the scenario did not run to completion: %s — mutators wait for each other although every delivery has finished" % r["status"]]
        return probs

    def replay(self, payload):
        if payload["schedule"]:
            sc = [l for l in payload["scenario"] if not l.startswith("seed")] + ["schedule " + " ".join(payload["schedule"])]
        else:   # the run died before it could report its schedule: the seed reproduces it
            sc = list(payload["scenario"])
        r = rc.run_one(sc)
        probs = self.problems(r)
        d = core.first_diff(r["model"], r["impl"])
        return bool(probs) or d is not None, "\n".join(r["impl"] + [r["status"]] + probs + (["first difference to model: %s" % (d,)] if d else []))


class C02(RegConcCheck):
    pid = "C02"
    prop_module = "SigHook.Props.C02"
    extra_modules = ("SigHook.Props.C02b",)
    assumptions = [
        "SC for the half-locks (all SeqCst, checked); deliveries are simulated calls of the real dispatcher",
        "HashMap/BTreeMap/Arc modelled by their specifications; user actions are opaque terminating steps",
    ]


class C03(RegConcCheck):
    pid = "C03"
    prop_module = "SigHook.Props.C03"
    # the channel's `send` is what the origin-carrying exfiltrator runs inside a delivery: never panics
    # (C08), returns within `ccost` own steps with everybody else paused (C08b)
    extra_modules = ("SigHook.Props.C08", "SigHook.Props.C08b")

    def replay(self, payload):
        if payload.get("nullinfo"):
            from . import c15
            fi, _ = c15.run_blocks([payload["ops"]])
            return not any(l == "exit killedBy:6" for l in fi[0]), "\n".join(fi[0])
        if payload.get("flags"):
            from . import c15
            fi, _ = c15.run_blocks([payload["ops"]])
            return any("ATEXIT-HOOK-RAN" in l for l in fi[0]), "\n".join(fi[0])
        if payload.get("pipes"):
            from . import c13
            pi, _ = c13.run_blocks([payload["ops"]])
            bad = [l for l in pi[0] if "WOULD-BLOCK" in l or ("BLOCKING" in l and l.strip().startswith("sys"))]
            return bool(bad), "\n".join(pi[0])
        if any(l.startswith("setup watch") for l in payload.get("scenario", [])):
            from . import c09
            class It(c09.IterCheck):
                pid = "C03"
                profile = "handler"
            return It().replay(payload)
        if payload.get("queue"):
            from . import itq
            sc = [l for l in payload["scenario"] if not l.startswith("seed")] + ["schedule " + " ".join(payload["schedule"])]
            r = itq.run_one(sc)
            probs = itq.monitors(r).get("C03", [])
            return bool(probs), "\n".join(r["impl"] + [r["status"]] + probs)
        if payload.get("channel"):
            from . import c06
            class Ch(c06.ChannelCheck):
                pid = "C03"
            return Ch().replay(payload)
        return super().replay(payload)

    def correspond(self, tier, seed, rng):
        res = super().correspond(tier, seed, rng)
        # built-in action of the iterators (store into the slot + self-pipe wake), incl. a full pipe
        from . import c09
        class It(c09.IterCheck):
            pid = "C03"
            profile = "handler"
        ires = It().correspond(tier, seed, rng)
        res["failures"] += ires["failures"]
        res["evaluations"] += ires["evaluations"]
        res["distinct_nontrivial"] += ires["distinct_nontrivial"]
        res["distribution"]["iterator_scenarios"] = ires["evaluations"]
        res["distribution"]["iterator_wakes_on_full_pipe"] = ires["distribution"].get("= -1", 0)
        res["rule"] += "; plus iterator scenarios (the instance's real action: slot store + self-pipe wake, half of them with the pipe filled to capacity) with the same per-step monitor and a would-block detector on every write/send"
        # ... and with every owner of the instance dropped while a delivery is parked in the middle of its action:
        # a delivery never releases what the action captured (no free, no close inside the handler)
        class ItDrop(c09.IterCheck):
            pid = "C03"
            profile = "ownerdrop"
            def correspond(self, tier, seed, rng):
                from . import it as _it
                n = 80 if tier == "quick" else 3000
                rs = _it.run_many([_it.gen_scenario(rng, "ownerdrop") for _ in range(n)])
                fl = []
                for r in rs:
                    pr = _it.monitors(r).get("C03", [])
                    if pr:
                        fl.append({"kind": "violation", "key": "C03:itdrop:" + core.digest(pr[0].split(":")[-1][:40]),
                                   "what": "iterator schedule (%d steps): %s" % (len(r["schedule"]), pr[0]),
                                   "payload": {"scenario": r["scenario"], "schedule": r["schedule"], "impl": r["impl"][-80:], "model": r["model"][-80:]}})
                return {"failures": fl, "evaluations": len(rs)}
        dres = ItDrop().correspond(tier, seed, rng)
        res["failures"] += dres["failures"]
        res["evaluations"] += dres["evaluations"]
        res["distribution"]["iterator_owner_drop_scenarios"] = dres["evaluations"]
        # the info-carrying exfiltrators (one channel per signal, built lazily by `add_signal`): deliveries racing an
        # `add_signal` of their own signal, and the ordinary queueing scenarios, with the heap monitor
        from . import itq
        qs = [itq.gen_add_race(rng) for _ in range(60 if tier == "quick" else 3000)] + [itq.gen_scenario(rng) for _ in range(60 if tier == "quick" else 2000)]
        nheap = 0
        for r in itq.run_many(qs):
            qp = itq.monitors(r).get("C03", [])
            nheap += sum(1 for l in r["impl"] if " ret add " in l)
            if qp:
                res["failures"].append({"kind": "violation", "key": "C03:itq:" + core.digest(qp[0].split(":")[-1][:40]),
                                        "what": "iterator (queueing exfiltrator) schedule (%d steps): %s" % (len(r["schedule"]), qp[0]),
                                        "payload": {"scenario": r["scenario"], "schedule": r["schedule"], "impl": r["impl"][-80:], "queue": True}})
        res["evaluations"] += len(qs)
        res["distribution"]["queueing_scenarios"] = len(qs)
        res["distribution"]["queueing_add_signal_calls"] = nheap
        res["rule"] += "; plus scheduled scenarios on the info-carrying exfiltrator (WithRawSiginfo), a third of them with deliveries racing an add_signal of their own signal, with the heap monitor on every delivery"
        # the channel `send` that the origin-carrying exfiltrator runs inside the delivery: scheduled scenarios
        # (sends nested on threads that are mid-send/mid-recv, spurious failures) against the model, with the
        # no-panic / step-bound monitors restricted to `send`
        from . import c06
        class Ch(c06.ChannelCheck):
            pid = "C03"
        cres = Ch().correspond("quick" if tier == "quick" else "thorough", seed, rng)
        for f in cres["failures"]:
            f.setdefault("payload", {})["channel"] = True
        res["failures"] += cres["failures"]
        res["evaluations"] += cres["evaluations"]
        res["distinct_nontrivial"] += cres["distinct_nontrivial"]
        res["distribution"]["channel_scenarios"] = cres["traces_validated_against_impl"]
        res["distribution"]["channel_nested_sends"] = cres["distribution"].get("nested_sends", 0)
        res["rule"] += "; plus channel scenarios (the `send` an origin-carrying delivery runs, nested on threads that are mid-send/mid-recv) compared with the channel model step by step, with the no-panic and own-step-bound monitors on every send"
        # the other built-in wake action: `low_level::pipe` on pipes, stream and datagram sockets, empty
        # and full, left blocking by the caller (forked probes with the system calls logged)
        from . import c13
        pblocks = []
        for k in c13.KINDS:
            for full in (0, 1):
                for how in ("own", "raw"):
                    pblocks.append(["mk %s 0 %d" % (k, full), "reg %s 10" % how, "raise %d" % (3 if tier == "quick" else 300), "final"])
        pi, _pm = c13.run_blocks(pblocks)
        for b, impl in zip(pblocks, pi):
            bad = [l.strip() for l in impl if l.strip().startswith("WOULD-BLOCK") or ("BLOCKING" in l and l.strip().startswith("sys"))]
            raised = [l for l in impl if l.startswith("raised") and ("wouldblock=0" not in l or "blocking_calls=0" not in l or "slow=0" not in l)]
            if bad or raised:
                res["failures"].append({"kind": "violation", "key": "C03:pipe:" + b[0],
                                        "what": "ops `%s`: the self-pipe wake inside a delivery makes a call that can block: `%s`" % ("; ".join(b), (bad + raised)[0]),
                                        "payload": {"ops": b, "impl": impl, "pipes": True}})
        res["evaluations"] += len(pblocks)
        res["distribution"]["pipe_wake_probes"] = len(pblocks)
        # the built-in action that ends the process: `register_conditional_shutdown` must leave with `_exit`
        # from inside the delivery - `exit()` would run exit-time hooks (locks, allocation, waiting) in a
        # signal handler. Forked probes with an atexit marker.
        from . import c15
        fblocks = [["shutdown %d b0" % st, "set b0 1", "raise"] for st in (0, 1, 42, 255)]
        fblocks += [["shutdown 42 b0", "flag b0", "raise", "raise"], ["flag b1", "shutdown 7 b0", "set b0 1", "usize u0 5", "raise"]]
        fi, _fm = c15.run_blocks(fblocks)
        for b, impl in zip(fblocks, fi):
            if any("ATEXIT-HOOK-RAN" in l for l in impl):
                res["failures"].append({"kind": "violation", "key": "C03:shutdown-hooks",
                                        "what": "ops `%s`: the conditional-shutdown action ran the process's exit-time hooks from inside the signal handler (exit() instead of _exit(): not async-signal-safe, may lock, allocate or wait)" % "; ".join(b),
                                        "payload": {"ops": b, "impl": impl, "flags": True}})
        # the dispatcher's one exit of its own: a NULL `info` ends the process with write(2) + abort, also while another
        # thread holds the lock of std's stderr (anything of std's I/O in there would wait for it: exit status 78)
        nblocks = [["flag b0", "nullinfo"], ["usize u0 3", "flag b1", "nullinfo"]]
        ni, _nm = c15.run_blocks(nblocks)
        for b, impl in zip(nblocks, ni):
            ex = next((l for l in impl if l.startswith("exit ")), "exit ?")
            if ex != "exit killedBy:6":
                res["failures"].append({"kind": "violation", "key": "C03:nullinfo",
                                        "what": "ops `%s`: a delivery with a NULL siginfo while another thread holds std's stderr lock must end the process with abort() at once; observed `%s` (78 = the dispatcher waited for the lock until the other thread gave up; hang = it never came back)" % ("; ".join(b), ex),
                                        "payload": {"ops": b, "impl": impl, "flags": True, "nullinfo": True}})
        res["evaluations"] += len(nblocks)
        res["distribution"]["null_siginfo_probes"] = len(nblocks)
        res["evaluations"] += len(fblocks)
        res["distribution"]["shutdown_probes"] = len(fblocks)
        res["rule"] += "; plus forked probes of the conditional-shutdown action with an atexit marker (the delivery must end the process without running exit-time hooks)"
        res["rule"] += "; plus forked probes of the `low_level::pipe` wake on pipes / stream / datagram sockets, empty and full, that the caller left blocking (no call that can block may be made from the delivery)"
        uniq = {}
        for f in res["failures"]:
            uniq.setdefault(f["key"], f)
        res["failures"] = list(uniq.values())
        return res
    assumptions = C02.assumptions + [
        "heap use inside a delivery is observed by the harness's #[global_allocator] wrapper (library code only; harness code is excluded by a thread-local flag)",
        "user actions and a chained foreign handler are opaque steps assumed finite and async-signal-safe (the crate's own safety contract)",
    ]


class C04(RegConcCheck):
    pid = "C04"
    prop_module = "SigHook.Props.C04"
    profile = "chain"
    assumptions = C02.assumptions + [
        "nobody outside the library changes the disposition of a signal after the library first read it (the crate's documented race otherwise)",
        "kernel: sigaction swaps atomically; a delivery enters the library's handler iff it is the disposition at that instant (simulated deliveries check the real disposition first)",
    ]


class C18rc(RegConcCheck):
    """registry-level part of C18: concurrent mutators (incl. first registrations and
    unregister_signal) never deadlock"""
    pid = "C18"
    profile = "mutators"
    n_quick, n_thorough = 200, 15000


class C05rc(RegConcCheck):
    """concurrent part of C05: several threads unregister the same registration"""
    pid = "C05"
    prop_module = "SigHook.Props.C05"
    profile = "unregrace"
    n_quick, n_thorough = 250, 15000


class C01rc(RegConcCheck):
    """registry level of C01: actions (not just snapshots) are released once, by the remover,
    outside handlers, never while a delivery has them pinned, and do not run after removal returned"""
    pid = "C01"
    prop_module = "SigHook.Props.C01"
    profile = "mixed"
    n_quick, n_thorough = 200, 15000
