"""C16 — default-action emulation matches the kernel."""
import json, os
from . import core
from .runner import PropCheck

OUT_OF_RANGE = [0, -1, -2, 65, 66, 100, 127, 128, 129, 130, 1000, 2147483647, -2147483648,
                # numbers that coincide with a known signal in their low 8 / 16 bits (a narrowed table field)
                256 + 15, 256 + 6, 256 + 19, 256 + 17, 256 + 20, 512 + 2, 1024 + 15, 65536 + 15, 65536 + 9, -256 + 15, -65536 + 1,
                (1 << 31) - 256 + 15]


def ops_all():
    ops = []
    for n in list(range(1, 65)) + OUT_OF_RANGE:
        if n in (32, 33):
            continue   # glibc-internal, cannot be probed
        ops.append("name %d" % n)
        ops.append("emu %d normal" % n)
        if 1 <= n <= 64:
            ops.append("emu %d pending" % n)     # another signal blocked and pending meanwhile
            ops.append("emu %d group" % n)       # a bystander process shares the process group
            ops.append("emu %d worker" % n)      # emulated on a second thread while the main thread idles, unblocked
        if n not in (9, 19):
            if 1 <= n <= 64:   # a handler context exists only for numbers the OS accepts
                ops.append("emu %d handler" % n)
                ops.append("emu %d blocked" % n)   # blocked, disposition already default (sigwait-style caller)
                ops.append("emu %d oneshot" % n)   # inside a one-shot (SA_RESETHAND) handler of that signal
                ops.append("emu %d ignored" % n)   # the signal is being ignored (SIGPIPE in a Rust program, nohup)
            if n not in (4, 8, 11):   # register_conditional_default panics on forbidden (C14)
                ops.append("emu %d cond" % n)
    return ops


class C16(PropCheck):
    pid = "C16"
    prop_module = "SigHook.Props.C16"
    assumptions = [
        "kernelDefault (Model/Default.lean) = Linux default dispositions; validated per run by forked native probes (kernel= column)",
        "outcome observed through waitpid(WUNTRACED) of a forked child in a fresh non-orphaned process group, core dumps disabled",
        "signals 32/33 (glibc-internal) are not probed",
    ]

    def run_chunk(self, ops):
        text = "\n".join(ops) + "\n"
        rc, impl, err = core.run_harness("defaults", text)
        return impl, rc, err

    def correspond(self, tier, seed, rng):
        ops = ops_all()
        reps = 1 if tier == "quick" else 3
        platform = json.load(open(os.path.join(core.VERIF, "sites.json")))["platform"]
        names_by_num = {}
        for k, v in platform.items():
            if k.startswith("SIG") and not k.startswith("SIGRT"):
                names_by_num.setdefault(v, set()).add(k)
        model = core.run_driver("defaults", "\n".join(ops) + "\n")
        chunks = [ops[i::16] for i in range(16)]
        failures, dist, evals = [], {}, 0
        samples = []
        seen_fail = set()
        for rep in range(reps):
            results = core.pmap(self.run_chunk, chunks)
            impl_by_op = {}
            for ch, (impl, rc, err) in zip(chunks, results):
                if rc != 0 or len(impl) != len(ch):
                    failures.append({"kind": "disagreement", "what": "defaults probe exited %d / %d of %d lines: %s" % (rc, len(impl), len(ch), err[-300:]), "key": "C16:harness"})
                for o, l in zip(ch, impl):
                    impl_by_op[o] = l
            cur_name = {}
            for o, m in zip(ops, model):
                i = impl_by_op.get(o, "<missing>")
                evals += 1
                w = o.split()
                if w[0] == "name":
                    n = int(w[1])
                    cur_name[n] = i.split()[-1] if i.startswith("name") else "?"
                    dist["names_known" if cur_name[n] != "-" else "names_unknown"] = dist.get("names_known" if cur_name[n] != "-" else "names_unknown", 0) + 1
                    if cur_name[n] not in ("-", "?") and cur_name[n] not in names_by_num.get(n, set()):
                        k = "C16:name=%d" % n
                        if k not in seen_fail:
                            seen_fail.add(k)
                            failures.append({"kind": "violation", "key": k, "what": "signal_name(%d) = %s but the platform's names for %d are %s" % (n, cur_name[n], n, sorted(names_by_num.get(n, []))), "payload": {"ops": [o], "impl": [i], "model": [m]}})
                    elif i != m:
                        failures.append({"kind": "disagreement", "key": "C16:namediff=%d" % n, "what": "signal_name(%d): model `%s` vs implementation `%s`" % (n, m, i), "payload": {"ops": [o], "impl": [i], "model": [m]}})
                    continue
                n, ctx = int(w[1]), w[2]
                try:
                    ik, ie = [x.split("=")[1] for x in i.split()]
                    mk, me = [x.split("=")[1] for x in m.split()]
                except Exception:
                    failures.append({"kind": "disagreement", "key": "C16:parse", "what": "unparsable probe line for `%s`: %s" % (o, i)})
                    continue
                dist["emul:" + ie.split(":")[0]] = dist.get("emul:" + ie.split(":")[0], 0) + 1
                known = cur_name.get(n, "-") not in ("-", "?")
                if known and ie != ik:
                    k = "C16:signal=%d" % n
                    if k not in seen_fail:
                        seen_fail.add(k)
                        failures.append({"kind": "violation", "key": k,
                                         "what": "signal %d (%s), context %s: the OS default outcome is `%s` but emulate_default_handler gives `%s`" % (n, cur_name[n], ctx, ik, ie),
                                         "payload": {"ops": ["name %d" % n, o], "impl": [i], "model": [m]}})
                elif (not known) and ie != "err":
                    k = "C16:unknown=%d" % n
                    if k not in seen_fail:
                        seen_fail.add(k)
                        failures.append({"kind": "violation", "key": k, "what": "signal %d is not known by name, yet emulate_default_handler(%d) in context %s gives `%s` instead of an error" % (n, n, ctx, ie), "payload": {"ops": ["name %d" % n, o], "impl": [i], "model": [m]}})
                if ik != mk and n != 0:   # raise(0) is kill(pid, 0), an existence probe, not a signal
                    failures.append({"kind": "disagreement", "key": "C16:env=%d" % n, "what": "environment table: kernelDefault(%d) = %s in the model but this kernel does `%s`" % (n, mk, ik), "payload": {"ops": [o], "impl": [i], "model": [m]}})
                if ie != me and not (known and ie != ik):
                    failures.append({"kind": "disagreement", "key": "C16:emu=%d:%s" % (n, ctx), "what": "emulate(%d, %s): model `%s` vs implementation `%s`" % (n, ctx, me, ie), "payload": {"ops": [o], "impl": [i], "model": [m]}})
            if rep == 0:
                samples = [{"op": o, "model": m, "impl": impl_by_op.get(o)} for o, m in list(zip(ops, model))[40:46]]
        # de-duplicate disagreements
        uniq = {}
        for f in failures:
            uniq.setdefault(f["key"], f)
        return {"evaluations": evals, "distinct_nontrivial": len([o for o in ops if o.startswith("emu")]),
                "rule": "every signal number 1..64 (except glibc's 32/33) and %d out-of-range numbers, in contexts normal / another signal pending / with a bystander process in the same process group (whose fate is part of the outcome) / on a second thread while the main thread idles / with the signal blocked and its disposition already default / inside a one-shot handler / with the signal ignored / inside own handler / via register_conditional_default; each case is a pair of forked children (native default vs emulation) classified by waitpid; distinct non-trivial = emulation cases (names excluded)" % len(OUT_OF_RANGE),
                "samples": samples, "traces_validated_against_impl": evals, "distribution": dist,
                "exhaustive": True, "failures": list(uniq.values())}

    def replay(self, payload):
        ops = payload["ops"]
        model = core.run_driver("defaults", "\n".join(ops) + "\n")
        impl, rc, err = self.run_chunk(ops)
        text = "\n".join("%-18s model: %-40s impl: %s" % (o, m, i) for o, m, i in zip(ops, model, impl))
        bad = False
        name = "-"
        for o, i in zip(ops, impl):
            if o.startswith("name"):
                name = i.split()[-1]
            elif o.startswith("emu") and "=" in i:
                ik, ie = [x.split("=")[1] for x in i.split()]
                if (name != "-" and ik != ie) or (name == "-" and ie != "err"):
                    bad = True
        return bad, text
