#!/usr/bin/env python3
"""Translator: source text of /repo  ->  /verif/lean/SigHook/Gen/*.lean (+ sites.json).

Only tables and constants are translated (control flow is tied dynamically by the
correspondence runs).  Fails loudly (ExtractError) when a construct no longer has the shape it
understands; bin/check turns that into a VIOLATION ... no-failing-input-found.
"""
import json, os, re, subprocess, sys, tempfile, hashlib

REPO = os.environ.get("VERIF_REPO", "/repo")
OUT = os.path.join(os.path.dirname(os.path.abspath(__file__)), "..", "lean", "SigHook", "Gen")
SITES = os.path.join(os.path.dirname(os.path.abspath(__file__)), "..", "sites.json")


class ExtractError(Exception):
    pass


def read(rel):
    with open(os.path.join(REPO, rel)) as f:
        return f.read()


def strip_comments(src):
    # remove // line comments and /* */ block comments, keep string literals intact enough
    out, i, n = [], 0, len(src)
    while i < n:
        c = src[i]
        if src.startswith("//", i):
            j = src.find("\n", i)
            i = n if j < 0 else j
        elif src.startswith("/*", i):
            j = src.find("*/", i + 2)
            end = n if j < 0 else j + 2
            out.append("\n" * src.count("\n", i, end))   # keep line numbers intact
            i = end
        elif c == '"':
            j = i + 1
            while j < n and src[j] != '"':
                j += 2 if src[j] == "\\" else 1
            out.append(src[i:j + 1]); i = j + 1
        else:
            out.append(c); i += 1
    return "".join(out)


# ---------------------------------------------------------------- cfg evaluation (linux x86_64)
CFG_FACTS = {"unix": True, "windows": False, "miri": False, "test": False, "docsrs": False,
             "sighook_verif": False}
CFG_KV = {"target_os": "linux", "target_pointer_width": "64", "target_family": "unix"}


def cfg_eval(expr, features=()):
    expr = expr.strip()
    m = re.match(r"^(any|all|not)\s*\((.*)\)$", expr, re.S)
    if m:
        parts, depth, cur = [], 0, ""
        for ch in m.group(2):
            if ch == "(":
                depth += 1
            if ch == ")":
                depth -= 1
            if ch == "," and depth == 0:
                parts.append(cur); cur = ""
            else:
                cur += ch
        if cur.strip():
            parts.append(cur)
        vals = [cfg_eval(p, features) for p in parts]
        if m.group(1) == "any":
            return any(vals)
        if m.group(1) == "all":
            return all(vals)
        if len(vals) != 1:
            raise ExtractError("not() with %d args: %s" % (len(vals), expr))
        return not vals[0]
    m = re.match(r'^(\w+)\s*=\s*"([^"]*)"$', expr)
    if m:
        if m.group(1) == "feature":
            return m.group(2) in features
        if m.group(1) not in CFG_KV:
            raise ExtractError("unknown cfg key: " + expr)
        return CFG_KV[m.group(1)] == m.group(2)
    if expr in CFG_FACTS:
        return CFG_FACTS[expr]
    raise ExtractError("unknown cfg predicate: " + expr)


def cfg_items(body):
    """split a bracketed list body into (cfg-enabled?, item-text) at top-level commas,
    honouring `#[cfg(..)]` attributes in front of items"""
    items, depth, cur = [], 0, ""
    for ch in body:
        if ch in "([{":
            depth += 1
        if ch in ")]}":
            depth -= 1
        if ch == "," and depth == 0:
            items.append(cur); cur = ""
        else:
            cur += ch
    if cur.strip():
        items.append(cur)
    res = []
    for it in items:
        it = it.strip()
        enabled = True
        while it.startswith("#["):
            depth, j = 0, 1
            while True:
                if it[j] == "[":
                    depth += 1
                if it[j] == "]":
                    depth -= 1
                    if depth == 0:
                        break
                j += 1
            attr = it[2:j].strip()
            m = re.match(r"^cfg\s*\((.*)\)$", attr, re.S)
            if not m:
                raise ExtractError("unexpected attribute on table row: " + attr)
            enabled = enabled and cfg_eval(m.group(1))
            it = it[j + 1:].strip()
        if it:
            res.append((enabled, it))
    return res


# ---------------------------------------------------------------- platform constants
PLATFORM_NAMES = (
    "SIGHUP SIGINT SIGQUIT SIGILL SIGTRAP SIGABRT SIGBUS SIGFPE SIGKILL SIGUSR1 SIGSEGV SIGUSR2 "
    "SIGPIPE SIGALRM SIGTERM SIGSTKFLT SIGCHLD SIGCONT SIGSTOP SIGTSTP SIGTTIN SIGTTOU SIGURG "
    "SIGXCPU SIGXFSZ SIGVTALRM SIGPROF SIGWINCH SIGIO SIGPOLL SIGPWR SIGSYS SIGINFO SIGEMT SIGLOST "
    "SIGRTMIN SIGRTMAX "
    "SA_RESTART SA_SIGINFO SA_NOCLDSTOP SA_NODEFER SA_RESETHAND SA_ONSTACK "
    "SI_USER SI_KERNEL SI_QUEUE SI_TIMER SI_MESGQ SI_ASYNCIO SI_SIGIO SI_TKILL SI_ASYNCNL "
    "CLD_EXITED CLD_KILLED CLD_DUMPED CLD_TRAPPED CLD_STOPPED CLD_CONTINUED "
    "EINVAL EAGAIN EBADF ENOTSOCK").split()


def platform_consts():
    src = ["#define _GNU_SOURCE", "#include <signal.h>", "#include <stdio.h>", "#include <errno.h>",
           "int main(void){"]
    for n in PLATFORM_NAMES:
        src.append("#ifdef %s\n printf(\"%s %%ld\\n\", (long)(%s));\n#endif" % (n, n, n))
    src.append("return 0;}")
    with tempfile.TemporaryDirectory(prefix="sighook-extract-") as d:
        c = os.path.join(d, "p.c"); exe = os.path.join(d, "p")
        open(c, "w").write("\n".join(src))
        r = subprocess.run(["gcc", "-o", exe, c], capture_output=True, text=True)
        if r.returncode != 0:
            raise ExtractError("gcc failed on platform probe: " + r.stderr[:400])
        out = subprocess.run([exe], capture_output=True, text=True, check=True).stdout
    consts = {}
    for line in out.splitlines():
        k, v = line.split()
        consts[k] = int(v)
    return consts


# ---------------------------------------------------------------- individual tables
def lean_int(n):
    return str(n) if n >= 0 else "(%d)" % n


def extract_forbidden(plat):
    src = strip_comments(read("signal-hook-registry/src/lib.rs"))
    arms = re.findall(r"#\[cfg\(([^\]]*)\)\]\s*const\s+FORBIDDEN_IMPL\s*:\s*&\[c_int\]\s*=\s*&\[([^\]]*)\]\s*;", src)
    if not arms:
        raise ExtractError("FORBIDDEN_IMPL arms not found")
    chosen = [body for (c, body) in arms if cfg_eval(c)]
    if len(chosen) != 1:
        raise ExtractError("expected exactly one FORBIDDEN_IMPL arm for this platform")
    if not re.search(r"pub\s+const\s+FORBIDDEN\s*:\s*&\[c_int\]\s*=\s*FORBIDDEN_IMPL\s*;", src):
        raise ExtractError("FORBIDDEN is no longer FORBIDDEN_IMPL")
    names = [x.strip() for x in chosen[0].split(",") if x.strip()]
    vals = []
    for n in names:
        if re.fullmatch(r"-?\d+", n):
            vals.append(int(n))
        elif n in plat:
            vals.append(plat[n])
        else:
            raise ExtractError("unknown name in FORBIDDEN: " + n)
    # the check in register_sigaction_impl
    m = re.search(r"fn\s+register_sigaction_impl.*?\{(.*?)\n\}", src, re.S)
    if not m:
        raise ExtractError("register_sigaction_impl not found")
    return names, vals


def extract_libflags(plat):
    src = strip_comments(read("signal-hook-registry/src/lib.rs"))
    m = re.search(r"#\[cfg\(not\(windows\)\)\]\s*fn\s+new\s*\(signal:\s*libc::c_int\)\s*->\s*Result<Self,\s*Error>\s*\{(.*?)\n    \}", src, re.S)
    if not m:
        raise ExtractError("Slot::new (non-windows) not found")
    body = m.group(1)
    # let flags = <expr>;  under cfg attributes
    flags = None
    for cm, expr in re.findall(r"#\[cfg\(([^\]]*)\)\]\s*let\s+flags\s*=\s*([^;]+);", body):
        if cfg_eval(cm):
            if flags is not None:
                raise ExtractError("two enabled `let flags` arms")
            flags = expr.strip()
    if flags is None:
        raise ExtractError("no enabled `let flags` arm in Slot::new")
    m2 = re.search(r"siginfo\s*=\s*([^;]+?)\s+as\s+_\s*;", body)
    if not m2:
        raise ExtractError("siginfo assignment not found in Slot::new")
    if not re.search(r"let\s+flags\s*=\s*flags\s*\|\s*siginfo\s*;", body):
        raise ExtractError("`let flags = flags | siginfo;` not found")
    if not re.search(r"new\.sa_flags\s*=\s*flags\s+as\s+_\s*;", body):
        raise ExtractError("`new.sa_flags = flags as _;` not found")
    if len(re.findall(r"\bsa_flags\b", body)) != 1 or len(re.findall(r"\bflags\b\s*(?:\|=|&=|\^=)", body)) != 0:
        raise ExtractError("Slot::new touches sa_flags / flags in a way the translator does not understand")

    def val(e):
        tot = 0
        for part in e.split("|"):
            part = part.strip()
            if re.fullmatch(r"\d+", part):
                tot |= int(part)
                continue
            mm = re.fullmatch(r"libc::(\w+)", part)
            if not mm or mm.group(1) not in plat:
                raise ExtractError("cannot evaluate flag expression: " + e)
            tot |= plat[mm.group(1)]
        return tot
    total = val(flags) | val(m2.group(1))
    # initial next_id
    m3 = re.search(r"HalfLock::new\(SignalData\s*\{\s*signals:\s*HashMap::new\(\),\s*next_id:\s*(\d+),?\s*\}\)", src)
    if not m3:
        raise ExtractError("initial SignalData not found")
    return total, int(m3.group(1)), flags + " | " + m2.group(1)


def extract_details(plat):
    src = strip_comments(read("src/low_level/signal_details.rs"))
    arms = re.findall(r"#\[cfg\(([^\]]*)\)\]\s*const\s+DETAILS\s*:\s*&\[Details\]\s*=\s*&\[(.*?)\n\];", src, re.S)
    chosen = [b for (c, b) in arms if cfg_eval(c)]
    if len(chosen) != 1:
        raise ExtractError("expected one DETAILS arm for this platform, got %d" % len(chosen))
    rows = []
    for enabled, it in cfg_items(chosen[0]):
        m = re.fullmatch(r"s!\(\s*(\w+)\s*,\s*(\w+)\s*\)", it)
        if not m:
            raise ExtractError("unexpected DETAILS row: " + it)
        if not enabled:
            continue
        name, kind = m.group(1), m.group(2)
        if name not in plat:
            raise ExtractError("DETAILS names unknown signal " + name)
        if kind not in ("Ignore", "Stop", "Term"):
            raise ExtractError("unknown DefaultKind " + kind)
        rows.append((name, plat[name], kind))
    # the macro must stringify the name and use the constant as number
    if not re.search(r"signal:\s*\$name,\s*name:\s*stringify!\(\$name\),\s*default_kind:\s*DefaultKind::\$kind", src):
        raise ExtractError("macro s! changed shape")
    return rows


def extract_cause(plat):
    c = strip_comments(read("src/low_level/extract.c"))
    m = re.search(r"struct\s+Const\s+consts\[\]\s*=\s*\{(.*?)\n\};", c, re.S)
    if not m:
        raise ExtractError("consts[] not found in extract.c")
    rows, enabled_stack = [], []
    for line in m.group(1).splitlines():
        line = line.strip()
        if not line:
            continue
        mm = re.fullmatch(r"#ifdef\s+(\w+)", line)
        if mm:
            enabled_stack.append(mm.group(1) in plat); continue
        if line == "#endif":
            if not enabled_stack:
                raise ExtractError("unbalanced #endif")
            enabled_stack.pop(); continue
        mm = re.fullmatch(r"\{\s*(\w+)\s*,\s*(-?\w+)\s*,\s*(\d+)\s*\},?", line)
        if not mm:
            raise ExtractError("unexpected consts[] row: " + line)
        if all(enabled_stack):
            native = plat.get(mm.group(1))
            if native is None:
                raise ExtractError("consts[] uses unknown name " + mm.group(1))
            sig = mm.group(2)
            sigv = int(sig) if re.fullmatch(r"-?\d+", sig) else plat.get(sig)
            if sigv is None:
                raise ExtractError("consts[] uses unknown signal " + sig)
            rows.append((mm.group(1), native, sigv, int(mm.group(3))))
    # the lookup loop must keep its shape
    want = r"consts\[i\]\.native\s*==\s*info->si_code\s*&&\s*\(consts\[i\]\.signal\s*==\s*-1\s*\|\|\s*consts\[i\]\.signal\s*==\s*info->si_signo\)"
    if not re.search(want, c):
        raise ExtractError("sighook_signal_cause match condition changed")
    if not re.search(r"return\s+consts\[i\]\.translated\s*;", c) or not re.search(r"return\s+0\s*;", c):
        raise ExtractError("sighook_signal_cause return statements changed")
    if not re.search(r"sighook_signal_pid[^{]*\{\s*return\s+info->si_pid\s*;", c):
        raise ExtractError("sighook_signal_pid changed")
    if not re.search(r"sighook_signal_uid[^{]*\{\s*return\s+info->si_uid\s*;", c):
        raise ExtractError("sighook_signal_uid changed")

    rs = strip_comments(read("src/low_level/siginfo.rs"))
    m = re.search(r"enum\s+ICause\s*\{(.*?)\}", rs, re.S)
    if not m:
        raise ExtractError("enum ICause not found")
    icause = []
    for _, it in cfg_items(m.group(1)):
        mm = re.fullmatch(r"(\w+)\s*=\s*(\d+)", it)
        if not mm:
            raise ExtractError("ICause variant without explicit discriminant: " + it)
        icause.append((mm.group(1), int(mm.group(2))))
    # has_process (non-macos arm)
    arms = re.findall(r"#\[cfg\(([^\]]*)\)\]\s*fn\s+has_process\s*\(self\)\s*->\s*bool\s*\{(.*?)\n    \}", rs, re.S)
    chosen = [b for (cc, b) in arms if cfg_eval(cc)]
    if len(chosen) != 1:
        raise ExtractError("has_process arm for this platform not found")
    body = chosen[0]
    hp = {}
    mm = re.fullmatch(r"\s*(?:use\s+ICause::\*;\s*)?matches!\(\s*self\s*,\s*((?:\w+\s*\|\s*)*\w+)\s*,?\s*\)\s*", body)
    if re.fullmatch(r"\s*true\s*", body):
        hp = {n: True for n, _ in icause}
    elif mm:
        listed = [x.strip() for x in mm.group(1).split("|")]
        hp = {n: (n in listed) for n, _ in icause}
    else:
        for pat, val in re.findall(r"((?:\w+\s*\|\s*)*\w+)\s*=>\s*(true|false)", body):
            for n in re.split(r"\s*\|\s*", pat.strip()):
                hp[n.strip()] = (val == "true")
    for n, _ in icause:
        if n not in hp:
            raise ExtractError("has_process has no arm for " + n)
    # From<ICause> for Cause
    m = re.search(r"impl\s+From<ICause>\s+for\s+Cause\s*\{.*?match\s+c\s*\{(.*?)\n        \}", rs, re.S)
    if not m:
        raise ExtractError("From<ICause> for Cause not found")
    conv, default = {}, None
    for lhs, rhs in re.findall(r"(ICause::\w+|_)\s*=>\s*(Cause::\w+(?:\((?:Sent|Chld)::\w+\))?)", m.group(1)):
        if lhs == "_":
            default = rhs
        else:
            conv[lhs.split("::")[1]] = rhs
    if default is None:
        raise ExtractError("From<ICause> has no default arm")
    # Origin::extract shape
    if not re.search(r"let\s+cause\s*=\s*sighook_signal_cause\(info\);\s*let\s+process\s*=\s*if\s+cause\.has_process\(\)", rs):
        raise ExtractError("Origin::extract changed shape (cause/has_process)")
    if not re.search(r"let\s+signal\s*=\s*info\.si_signo\s*;", rs):
        raise ExtractError("Origin::extract no longer takes signal from si_signo")
    if not re.search(r"pid:\s*sighook_signal_pid\(info\),\s*uid:\s*sighook_signal_uid\(info\)", rs):
        raise ExtractError("Process::extract changed shape")
    return rows, icause, hp, conv, default


C_INT_TYPES = {"int": (32, True), "signed": (32, True), "unsigned": (32, False), "short": (16, True), "long": (64, True),
               "int8_t": (8, True), "int16_t": (16, True), "int32_t": (32, True), "int64_t": (64, True),
               "uint8_t": (8, False), "uint16_t": (16, False), "uint32_t": (32, False), "uint64_t": (64, False),
               "char": (8, True), "size_t": (64, False), "pid_t": (32, True)}


def extract_cause_fields():
    """the integer types of `struct Const`'s fields: (field, bits, signed) - a row whose constant does not fit
    its field is silently truncated by the C compiler (the constants come from system-header macros)"""
    c = strip_comments(read("src/low_level/extract.c"))
    m = re.search(r"struct\s+Const\s*\{(.*?)\}\s*;", c, re.S)
    if not m:
        raise ExtractError("struct Const not found in extract.c")
    out = []
    for decl in m.group(1).split(";"):
        decl = decl.strip()
        if not decl:
            continue
        mm = re.fullmatch(r"((?:\w+\s+)+)(\w+)(\s*:\s*(\d+))?", decl)
        if not mm:
            raise ExtractError("struct Const field not understood: " + decl)
        tys = [t for t in mm.group(1).split() if t not in ("const", "volatile")]
        if len(tys) == 2 and tys[0] in ("signed", "unsigned") and tys[1] in C_INT_TYPES:
            bits, signed = C_INT_TYPES[tys[1]][0], tys[0] == "signed"
        elif len(tys) == 1 and tys[0] in C_INT_TYPES:
            bits, signed = C_INT_TYPES[tys[0]]
        else:
            raise ExtractError("struct Const field type not understood: " + decl)
        if mm.group(4):
            bits = int(mm.group(4))
        out.append((mm.group(2), bits, signed))
    if [f for f, _, _ in out] != ["native", "signal", "translated"]:
        raise ExtractError("struct Const fields changed: %s" % [f for f, _, _ in out])
    # what the lookup compares against and returns
    if not re.search(r"uint8_t\s+sighook_signal_cause\s*\(", c):
        raise ExtractError("sighook_signal_cause no longer returns uint8_t")
    return out


def extract_registry_types():
    """the containers the registry keeps its actions in, and what an id is: the sequential model (Model/RegistrySeq)
    relies on "a map ordered by a numerically ordered id that is handed out in increasing order iterates in
    registration order" and on "removing one key leaves the others where they are" """
    src = strip_comments(read("signal-hook-registry/src/lib.rs"))
    cut = src.find("#[cfg(test)]")
    if cut >= 0:
        src = src[:cut]
    out = []
    m = re.search(r"((?:#\[[^\]]*\]\s*)*)struct\s+ActionId\s*\(\s*([^)]+?)\s*\)\s*;", src)
    if not m:
        raise ExtractError("struct ActionId(..) not found")
    out.append(("ActionId", re.sub(r"\s+", "", m.group(2))))
    derives = re.findall(r"derive\(([^)]*)\)", m.group(1))
    names = [x.strip() for d in derives for x in d.split(",")]
    out.append(("ActionId.derives.Ord", "true" if "Ord" in names and "PartialOrd" in names else "false"))
    def field(struct, name):
        mm = re.search(r"struct\s+%s\s*\{(.*?)\n\}" % struct, src, re.S)
        if not mm:
            raise ExtractError("struct %s not found" % struct)
        f = re.search(r"\b%s\s*:\s*([^\n]+?),\s*(?:\n|$)" % name, mm.group(1))
        if not f:
            raise ExtractError("field %s.%s not found" % (struct, name))
        return re.sub(r"\s+", "", f.group(1))
    out.append(("Slot.actions", field("Slot", "actions")))
    out.append(("SignalData.signals", field("SignalData", "signals")))
    out.append(("SignalData.next_id", field("SignalData", "next_id")))
    out.append(("SigId.action", field("SigId", "action")))
    return out


def extract_channel_consts():
    src = strip_comments(read("src/low_level/channel.rs"))
    def const(name, ty):
        m = re.search(r"const\s+%s\s*:\s*%s\s*=\s*(0b[01_]+|0x[0-9a-fA-F_]+|\d+)\s*;" % (name, ty), src)
        if not m:
            raise ExtractError("const %s not found in channel.rs" % name)
        return int(m.group(1).replace("_", ""), 0)
    return const("SLOTS", "usize"), const("BITS", "u16"), const("MASK", "u16")


def extract_poll_signal_shape():
    """does poll_signal re-check is_closed() before turning poll_pending's None into Pending?"""
    b = strip_comments(read("src/iterator/backend.rs"))
    m = re.search(r"fn\s+poll_signal.*?\n    \}\n", b, re.S)
    if not m:
        raise ExtractError("poll_signal not found")
    body = m.group(0)
    if not re.search(r"while\s+!self\.signals\.borrow_mut\(\)\.handle\.is_closed\(\)", body):
        raise ExtractError("poll_signal loop condition changed")
    arm = re.search(r"Ok\(None\)\s*=>\s*(\{.*?\n                \}|return\s+PollResult::Pending\s*,)", body, re.S)
    if not arm:
        raise ExtractError("poll_signal: Ok(None) arm not understood")
    txt = arm.group(1)
    if txt.startswith("return"):
        return False
    if re.search(r"if\s+self\.signals\.borrow_mut\(\)\.handle\.is_closed\(\)\s*\{\s*return\s+PollResult::Closed;\s*\}\s*return\s+PollResult::Pending;", txt):
        return True
    raise ExtractError("poll_signal: Ok(None) arm has a shape the translator does not understand")


def extract_instance_shape():
    """(tolerant, idem): do both lock() sites of the ids table ignore poisoning; is
    WithRawSiginfo::init idempotent"""
    b = strip_comments(read("src/iterator/backend.rs"))
    sites = re.findall(r"registered_signal_ids\s*\.lock\(\)\s*\.(unwrap\(\)|unwrap_or_else\(\s*(?:std::sync::)?PoisonError::into_inner\s*\))", b)
    if len(sites) != 2:
        raise ExtractError("expected two lock() sites of registered_signal_ids, found %d in a shape the translator understands" % len(sites))
    tolerant = all(x.startswith("unwrap_or_else") for x in sites)
    if not tolerant and not all(x == "unwrap()" for x in sites):
        tolerant = False   # mixed: one site still unwraps -> not tolerant
    r = strip_comments(read("src/iterator/exfiltrator/raw.rs"))
    m = re.search(r"fn\s+init\s*\(&self,\s*slot:\s*&Self::Storage,\s*_:\s*c_int\)\s*\{(.*?)\n    \}", r, re.S)
    if not m:
        raise ExtractError("WithRawSiginfo::init not found")
    body = m.group(1)
    if not re.search(r"let\s+old\s*=\s*slot\.0\.swap\(Box::into_raw\(new\),\s*Ordering::\w+\);\s*assert!\(old\.is_null\(\)", body):
        raise ExtractError("WithRawSiginfo::init: swap/assert shape changed")
    idem = bool(re.search(r"if\s+!slot\.0\.load\(Ordering::\w+\)\.is_null\(\)\s*\{\s*return;\s*\}.*slot\.0\.swap", body, re.S))
    return tolerant, idem


def extract_misc_consts():
    b = strip_comments(read("src/iterator/backend.rs"))
    m = re.search(r"const\s+MAX_SIGNUM\s*:\s*usize\s*=\s*(\d+)\s*;", b)
    if not m:
        raise ExtractError("MAX_SIGNUM not found")
    hl = strip_comments(read("signal-hook-registry/src/half_lock.rs"))
    m2 = re.search(r"const\s+YIELD_EVERY\s*:\s*usize\s*=\s*(\d+)\s*;", hl)
    if not m2:
        raise ExtractError("YIELD_EVERY not found")
    return int(m.group(1)), int(m2.group(1))


ATOMIC_FILES = [
    "signal-hook-registry/src/half_lock.rs",
    "src/low_level/channel.rs",
    "src/iterator/backend.rs",
    "src/iterator/exfiltrator/mod.rs",
    "src/iterator/exfiltrator/raw.rs",
    "src/flag.rs",
]
ATOMIC_METHODS = ["compare_exchange_weak", "compare_exchange", "fetch_add", "fetch_sub", "load",
                  "store", "swap"]


def extract_orderings():
    sites = []
    for rel in ATOMIC_FILES:
        src = strip_comments(read(rel))
        cut = src.find("#[cfg(test)]")
        if cut >= 0:
            src = src[:cut]
        # map offsets -> enclosing fn, line number (line numbers of comment-stripped text differ,
        # so line numbers are recomputed on the original text by matching call ordinal per fn)
        fns = [(m.start(), m.group(1)) for m in re.finditer(r"\bfn\s+(\w+)", src)]
        counts = {}
        for m in re.finditer(r"\.(%s)\s*\(" % "|".join(ATOMIC_METHODS), src):
            meth = m.group(1)
            # balanced args
            i = m.end(); depth = 1
            while depth and i < len(src):
                if src[i] == "(":
                    depth += 1
                elif src[i] == ")":
                    depth -= 1
                i += 1
            args = src[m.end():i - 1]
            # `Ordering::SeqCst`, or the bare variant when the source imports the variants
            ords = re.findall(r"(?:\bOrdering::)?\b(Relaxed|Acquire|Release|AcqRel|SeqCst)\b", args)
            if not ords:
                continue  # not an atomic call (e.g. Vec::swap / HashMap load)
            fn = "?"
            for off, name in fns:
                if off < m.start():
                    fn = name
            # receiver expression: identifier chain before the dot
            recv = re.search(r"([\w\.\[\]%\s\*&\(\)]*?)$", src[max(0, m.start() - 60):m.start()]).group(1)
            recv = recv.strip().split("\n")[-1].strip()
            recv = re.sub(r"^.*?((?:\w+\.)*\w+(?:\[[^\]]*\])?)$", r"\1", recv)
            k = (rel, fn)
            counts[k] = counts.get(k, 0) + 1
            line = src.count("\n", 0, m.start() + 1) + 1
            sites.append({"file": rel, "fn": fn, "ordinal": counts[k], "method": meth,
                          "recv": recv, "orderings": ords, "line": line})
    if not sites:
        raise ExtractError("no atomic call sites found")
    return sites



# ------------------------------------------------------------------ call skeletons
# For the functions whose *order of operations* the models mirror step by step, the ordered list of
# the calls that matter (syntactic order inside the function body, comments stripped). A change of
# the order, an added or a dropped call breaks the tie theorem that compares it with the model.
SKELETONS = [
    ("signal-hook-registry/src/lib.rs", "register_unchecked_impl", [
        ("data.write", r"\.data\s*\.write\s*\("), ("data.read", r"\.data\s*\.read\s*\("),
        ("fallback.write", r"\.race_fallback\s*\.write\s*\("), ("fallback.read", r"\.race_fallback\s*\.read\s*\("),
        ("clone", r"SignalData::clone\s*\("), ("Prev::detect", r"Prev::detect\s*\("),
        ("Slot::new", r"Slot::new\s*\("), ("store", r"\.store\s*\(")]),
    ("signal-hook-registry/src/lib.rs", "unregister", None),
    ("signal-hook-registry/src/lib.rs", "unregister_signal", None),
    ("signal-hook-registry/src/lib.rs", "handler", [
        ("fallback.read", r"\.race_fallback\s*\.read\s*\("), ("data.read", r"\.data\s*\.read\s*\("),
        ("data.write", r"\.data\s*\.write\s*\("), ("fallback.write", r"\.race_fallback\s*\.write\s*\("),
        ("prev.execute", r"\.execute\s*\("), ("action", r"\baction\s*\(\s*info"),
        # the one thing it does besides: a NULL `info` ends the process with write(2) + abort - through libc, nothing
        # of std that could lock, allocate or panic
        ("null.write", r"libc::write\s*\(\s*2\s*,"), ("null.abort", r"libc::abort\s*\(\s*\)"),
        ("std.io", r"io::stderr|io::stdout|eprintln!|println!|write_all|format!|panic!\s*\(|\.lock\s*\(\s*\)|\.expect\s*\(")]),
    # the chained call: the special dispositions are excluded first, whatever the flags say; then the flags
    # choose the calling convention
    ("signal-hook-registry/src/lib.rs", "execute#1", [
        ("guard.special", r"if\s+(?=[^{]*fptr\s*!=\s*0\b)(?=[^{]*fptr\s*!=\s*libc::SIG_DFL\b)(?=[^{]*fptr\s*!=\s*libc::SIG_IGN\b)[^{|]*\{"),
        ("if", r"\bif\b"), ("else", r"\belse\b"), ("siginfo.clear", r"sa_flags\s*&\s*siginfo\s*==\s*0"),
        ("call.1", r"action\s*\(\s*sig\s*\)"), ("call.3", r"action\s*\(\s*sig\s*,\s*info\s*,\s*data\s*\)")]),
    ("src/low_level/channel.rs", "send", [
        ("dequeue.empty", r"dequeue\s*\(\s*&self\.empty"), ("dequeue.full", r"dequeue\s*\(\s*&self\.full"),
        ("cell.write", r"\.get\s*\(\s*\)\s*=\s*Some"), ("cell.take", r"\.take\s*\("),
        ("enqueue.full", r"enqueue\s*\(\s*&self\.full"), ("enqueue.empty", r"enqueue\s*\(\s*&self\.empty")]),
    ("src/low_level/channel.rs", "recv", None),
    ("src/iterator/backend.rs", "close", [
        ("closed.store", r"\.closed\s*\.store\s*\("), ("wake", r"\.wake_readers\s*\("),
        # unconditionally: a close() that decides whether anybody needs waking races with whoever is about to wait
        ("conditional", r"\bif\b|\bmatch\b|\breturn\b|\?")]),
    ("src/iterator/backend.rs", "poll_pending", [
        ("is_closed", r"\.is_closed\s*\("), ("has_signals", r"\bhas_signals\s*\("),
        ("pending", r"\.pending\s*\("), ("flush", r"\.flush\s*\(")]),
    # `pending()`: drain, then a scanner over the whole slot table - nothing cached, nothing narrowed
    ("src/iterator/backend.rs", "pending", [
        # one argument - the shared slots, cloned in place or through a local: what matters is that nothing else
        # (a range, a limit) goes into the scanner
        ("flush", r"\.flush\s*\("), ("scanner.all", r"Pending::new\s*\(\s*(?:Arc::clone\s*\(\s*&self\.pending\s*\)|\w+)\s*\)"),
        ("scanner.other", r"Pending::new\s*\((?!\s*(?:Arc::clone\s*\(\s*&self\.pending\s*\)|\w+)\s*,?\s*\))|Pending\s*\{"),
        ("conditional", r"\bif\b|\bmatch\b|\breturn\b")]),
    ("src/iterator/backend.rs", "next", [
        ("bound.slots", r"while\s+self\.position\s*<\s*self\.pending\.slots\.len\s*\(\s*\)\s*\{"),
        ("bound.other", r"\bwhile\s+(?!self\.position\s*<\s*self\.pending\.slots\.len\s*\(\s*\)\s*\{)|\bfor\b|\bloop\b|\bbreak\b"),
        ("load", r"\.load\s*\("), ("return", r"\breturn\b"), ("else", r"\belse\b"),
        ("advance", r"position\s*\+=\s*1"), ("advance", r"position\s*=\s*[^=]")]),
    ("src/iterator/backend.rs", "poll_signal", [
        ("is_closed", r"\.is_closed\s*\("), ("iter.next", r"\.iter\s*\.next\s*\("),
        ("poll_pending", r"\.poll_pending\s*\("), ("flush", r"\.flush\s*\("), ("pending", r"\.pending\s*\(")]),
    # built-in actions and glue: what runs inside the delivery, token by token
    ("src/flag.rs", "register", [
        ("store.true.seqcst", r"flag\.store\s*\(\s*true\s*,\s*(?:Ordering::)?SeqCst\s*\)"),
        ("other.atomic", r"flag\.(?!store\s*\(\s*true\s*,\s*(?:Ordering::)?SeqCst)\w+\s*\("), ("if", r"\bif\b")]),
    ("src/flag.rs", "register_usize", [
        ("store.value.seqcst", r"flag\.store\s*\(\s*value\s*,\s*(?:Ordering::)?SeqCst\s*\)"),
        ("other.atomic", r"flag\.(?!store\s*\(\s*value\s*,\s*(?:Ordering::)?SeqCst)\w+\s*\("), ("if", r"\bif\b")]),
    ("src/flag.rs", "register_conditional_shutdown", [
        ("load.seqcst", r"condition\.load\s*\(\s*(?:Ordering::)?SeqCst\s*\)"),
        ("other.atomic", r"condition\.(?!load\s*\(\s*(?:Ordering::)?SeqCst)\w+\s*\("),
        ("low_level.exit", r"low_level::exit\s*\(\s*status\s*\)"), ("other.exit", r"(?:process::exit|libc::exit|abort)\s*\(")]),
    ("src/flag.rs", "register_conditional_default", [
        ("signal_name.check", r"low_level::signal_name\s*\(\s*signal\s*\)\s*\.ok_or_else"),
        ("load.seqcst", r"condition\.load\s*\(\s*(?:Ordering::)?SeqCst\s*\)"),
        ("other.atomic", r"condition\.(?!load\s*\(\s*(?:Ordering::)?SeqCst)\w+\s*\("),
        ("emulate", r"low_level::emulate_default_handler\s*\(\s*signal\s*\)")]),
    ("src/low_level/mod.rs", "exit", [
        ("_exit", r"libc::_exit\s*\(\s*status\s*\)"), ("other.exit", r"(?:process::exit|libc::exit)\s*\(")]),
    ("src/low_level/pipe.rs", "wake#1", [
        ("write", r"WakeMethod::Write\s*=>\s*libc::write\s*\(\s*pipe\s*,\s*data\s*,\s*1\s*\)"),
        ("send.nowait", r"WakeMethod::Send\s*=>\s*libc::send\s*\(\s*pipe\s*,\s*data\s*,\s*1\s*,\s*MSG_NOWAIT\s*\)"),
        ("other.call", r"libc::(?!write\s*\(\s*pipe\s*,\s*data\s*,\s*1\s*\)|send\s*\(\s*pipe\s*,\s*data\s*,\s*1\s*,\s*MSG_NOWAIT\s*\))\w+\s*\("),
        ("loop", r"\b(?:loop|while|for)\b")]),
    # the owned write end is closed when its owner goes - whatever its number (0 is a descriptor like any other)
    ("src/low_level/pipe.rs", "drop@libc::close", [
        ("close.fd", r"libc::close\s*\(\s*self\.fd\s*\)"), ("other.close", r"libc::close\s*\((?!\s*self\.fd\s*\))"),
        ("conditional", r"\bif\b|\bmatch\b|\breturn\b|\bwhile\b|\bfor\b|mem::forget")]),
    ("src/iterator/backend.rs", "add_signal@registered_signal_ids", [
        ("lock", r"\.registered_signal_ids\s*\.lock\s*\(\s*\)"),
        ("tolerant", r"unwrap_or_else\s*\(\s*std::sync::PoisonError::into_inner\s*\)"),
        ("check.registered", r"lock\[signal as usize\]\.is_some\s*\(\s*\)"), ("return.ok", r"return\s+Ok\s*\(\s*\(\s*\)\s*\)"),
        ("register", r"\.add_signal\s*\("), ("record", r"lock\[signal as usize\]\s*=\s*Some\s*\(\s*id\s*\)"),
        ("drop.lock", r"drop\s*\(\s*lock\s*\)")]),
    ("src/iterator/backend.rs", "add_signal@wake_readers", [
        ("store", r"\.store\s*\(\s*slot\s*,\s*signal\s*,\s*act\s*\)"), ("wake", r"\.wake_readers\s*\(\s*\)"),
        ("if", r"\bif\b"), ("register", r"register_sigaction\s*\("),
        # the action owns what it uses (a strong reference): nothing is upgraded - or let go of - inside a delivery
        ("weak", r"\b(?:downgrade|upgrade)\s*\(")]),
    # the disposition the library installs is built from nothing: its own handler, its own flags, an empty mask
    ("signal-hook-registry/src/lib.rs", "new@SA_RESTART", [
        ("new.zeroed", r"let\s+mut\s+new\s*:\s*libc::sigaction\s*=\s*unsafe\s*\{\s*mem::zeroed\s*\(\s*\)\s*\}"),
        ("new.from.other", r"let\s+mut\s+new\b[^=;]*=(?!\s*unsafe\s*\{\s*mem::zeroed)"),
        ("handler", r"new\.sa_sigaction\s*=\s*handler\s+as\s+usize"), ("flags", r"new\.sa_flags\s*=\s*flags\s+as\s+_"),
        ("mask", r"sa_mask"), ("install", r"libc::sigaction\s*\(\s*signal\s*,\s*&new\s*,\s*&mut\s+old\s*\)")]),
    # dropping the shared state of an instance removes every registration it recorded, unconditionally
    ("src/iterator/backend.rs", "drop@registered_signal_ids", [
        ("lock", r"\.registered_signal_ids\s*\.lock\s*\(\s*\)"),
        ("tolerant", r"unwrap_or_else\s*\(\s*std::sync::PoisonError::into_inner\s*\)"),
        ("all.ids", r"for\s+id\s+in\s+lock\s*\.iter\s*\(\s*\)\s*\.filter_map\s*\(\s*\|s\|\s*\*s\s*\)"),
        ("unregister", r"low_level::unregister\s*\(\s*id\s*\)"),
        ("conditional", r"\bif\b|\breturn\b|panicking")]),
    # the origin exfiltrator hands out the extraction of the queued record, nothing more
    ("src/iterator/exfiltrator/origin.rs", "load", [
        ("raw.load", r"self\s*\.0\s*\.load\s*\(\s*slot\s*,\s*signal\s*\)"),
        ("map.extract", r"\.map\s*\(\s*\|\s*info\s*\|\s*unsafe\s*\{\s*Origin::extract\s*\(\s*&info\s*\)\s*\}\s*\)"),
        ("other.extract", r"Origin::extract\s*\((?!\s*&info\s*\)\s*\}\s*\))"), ("touch", r"\b(?:match|if)\b|\.process\s*=|\.cause\s*=")]),
    # Origin::extract: the process is read iff the cause has one; the only exception is guarded by the macOS cfg
    ("src/low_level/siginfo.rs", "extract@sighook_signal_cause", [
        ("cause", r"sighook_signal_cause\s*\(\s*info\s*\)"), ("has_process", r"if\s+cause\.has_process\s*\(\s*\)"),
        ("process.extract", r"Process::extract\s*\(\s*info\s*\)"),
        ("macos.guard", r"cfg!\s*\(\s*target_os\s*=\s*\"macos\"\s*\)\s*&&\s*process\.pid\s*==\s*0\s*&&\s*process\.uid\s*==\s*0"),
        ("filter", r"\.filter\s*\("), ("signo", r"info\.si_signo")]),
    ("src/low_level/signal_details.rs", "emulate_default_handler", [
        ("kill.stop.raise", r"if\s+signal\s*==\s*SIGSTOP\s*\|\|\s*signal\s*==\s*SIGKILL\s*\{\s*return\s+low_level::raise\s*\(\s*signal\s*\)"),
        ("lookup.exact", r"\.find\s*\(\s*\|d\|\s*d\.signal\s*==\s*signal\s*\)"),
        ("lookup.other", r"\.find\s*\((?!\s*\|d\|\s*d\.signal\s*==\s*signal\s*\))"),
        ("unknown.einval", r"ok_or_else\s*\(\s*\|\|\s*Error::from_raw_os_error\s*\(\s*EINVAL\s*\)\s*\)\s*\?"),
        ("ignore.ok", r"DefaultKind::Ignore\s*=>\s*Ok\s*\(\s*\(\s*\)\s*\)"),
        ("stop.raise", r"DefaultKind::Stop\s*=>\s*low_level::raise\s*\(\s*SIGSTOP\s*\)"),
        ("term.restore", r"restore_default\s*\(\s*signal\s*\)"),
        ("term.unblock.one", r"prepare_sigset\s*\(\s*&mut\s+newsigs\s*,\s*signal\s*\)\s*;[^;]*?libc::sigprocmask\s*\(\s*SIG_UNBLOCK\s*,\s*&newsigs\s*,"),
        ("term.raise", r"let\s+_\s*=\s*low_level::raise\s*\(\s*signal\s*\)"),
        ("term.abort", r"libc::abort\s*\(\s*\)"),
        ("sigfillset", r"sigfillset"), ("setmask", r"SIG_SETMASK")]),
    # the front ends: the blocking readiness callback of `Signals`, `wait`, `forever`, and the adapters
    ("src/iterator/mod.rs", "has_signals", [
        ("loop", r"\bloop\b"), ("while", r"\bwhile\b"), ("for", r"\bfor\b"),
        ("read.one", r"\.read\s*\(\s*&mut\s*\[0u8\]\s*\)"), ("read.other", r"\.read\w*\s*\((?!\s*&mut\s*\[0u8\]\s*\))"),
        ("ok.nonzero", r"break\s+Ok\s*\(\s*num_read\s*>\s*0\s*\)"), ("ok.other", r"Ok\s*\(\s*(true|false)\s*\)"),
        ("interrupted", r"ErrorKind::Interrupted"), ("break.err", r"break\s+Err\s*\(")]),
    ("src/iterator/mod.rs", "wait", [
        ("poll_pending.has_signals", r"\.poll_pending\s*\(\s*&mut\s+Self::has_signals\s*\)"),
        ("poll_pending.other", r"\.poll_pending\s*\((?!\s*&mut\s+Self::has_signals\s*\))"),
        ("some.pending", r"Ok\s*\(\s*Some\s*\(\s*pending\s*\)\s*\)\s*=>\s*pending"),
        ("none.pending", r"Ok\s*\(\s*None\s*\)\s*=>\s*self\.pending\s*\(\s*\)"), ("panic", r"\bpanic!")]),
    ("src/iterator/mod.rs", "forever", [
        ("iterator.new", r"Forever\s*\(\s*RefSignalIterator::new\s*\(\s*&mut\s+self\.0\s*\)\s*\)")]),
    ("src/iterator/mod.rs", "next", [
        ("loop", r"\bloop\b"),
        ("poll_signal.has_signals", r"self\.0\.poll_signal\s*\(\s*&mut\s+SignalsInfo::<E>::has_signals\s*\)"),
        ("signal.some", r"PollResult::Signal\s*\(\s*result\s*\)\s*=>\s*break\s+Some\s*\(\s*result\s*\)"),
        ("closed.none", r"PollResult::Closed\s*=>\s*break\s+None"),
        ("pending.continue", r"PollResult::Pending\s*=>\s*continue"),
        ("err.panic", r"PollResult::Err\s*\(\s*error\s*\)\s*=>\s*panic!"),
        ("if", r"\bif\b"), ("return", r"\breturn\b")]),
    # constructors: which end of the pair is the one read from / registered with the reactor
    ("src/iterator/mod.rs", "with_exfiltrator", [
        ("pair", r"(?:UnixStream|Pipe|Async::<UnixStream>)::pair\s*\(\s*\)\s*\?"),
        ("with_pipe.read.write", r"SignalDelivery::with_pipe\s*\(\s*read\s*,\s*write\s*,\s*exfiltrator\s*,\s*signals\s*,?\s*\)"),
        ("with_pipe.other", r"SignalDelivery::with_pipe\s*\((?!\s*read\s*,\s*write\s*,\s*exfiltrator\s*,\s*signals\s*,?\s*\))"),
        ("iterator.new", r"OwningSignalIterator::new\s*\(\s*inner\s*\)")]),
    ("signal-hook-mio/src/lib.rs", "with_exfiltrator", None),
    ("signal-hook-tokio/src/lib.rs", "with_exfiltrator", None),
    ("signal-hook-async-std/src/lib.rs", "with_exfiltrator", None),
    ("signal-hook-mio/src/lib.rs", "register", [
        ("read.register", r"self\.0\.get_read_mut\s*\(\s*\)\s*\.register\s*\(\s*registry\s*,\s*token\s*,\s*interest\s*\)"),
        ("other.register", r"(?<!get_read_mut\(\))\.register\s*\(")]),
    ("signal-hook-mio/src/lib.rs", "pending", [
        ("pending", r"self\.0\.pending\s*\(\s*\)"), ("flush", r"flush"), ("if", r"\bif\b")]),
    ("signal-hook-tokio/src/lib.rs", "has_signals", [
        ("poll_read", r"Pin::new\s*\(\s*read\s*\)\s*\.poll_read\s*\(\s*ctx\s*,"),
        ("pending.false", r"Poll::Pending\s*=>\s*Ok\s*\(\s*false\s*\)"),
        ("ready.true", r"Poll::Ready\s*\(\s*Ok\s*\(\s*(?:\(\s*\)|num_read)\s*\)\s*\)\s*=>\s*Ok\s*\(\s*(?:true|num_read\s*>\s*0)\s*\)"),
        ("ready.err", r"Poll::Ready\s*\(\s*Err\s*\(\s*error\s*\)\s*\)\s*=>\s*Err\s*\(\s*error\s*\)"),
        ("if", r"\bif\b"), ("return", r"\breturn\b"), ("self", r"\bself\b")]),
    ("signal-hook-async-std/src/lib.rs", "has_signals", None),
    ("signal-hook-tokio/src/lib.rs", "poll_next", [
        ("poll_signal.has_signals", r"self\.0\.poll_signal\s*\(\s*&mut\s*\|\s*read\s*\|\s*Self::has_signals\s*\(\s*read\s*,\s*ctx\s*\)\s*\)"),
        ("signal.some", r"PollResult::Signal\s*\(\s*sig\s*\)\s*=>\s*Poll::Ready\s*\(\s*Some\s*\(\s*sig\s*\)\s*\)"),
        ("closed.none", r"PollResult::Closed\s*=>\s*Poll::Ready\s*\(\s*None\s*\)"),
        ("pending.pending", r"PollResult::Pending\s*=>\s*Poll::Pending"),
        ("err.panic", r"PollResult::Err\s*\(\s*error\s*\)\s*=>\s*panic!"),
        ("if", r"\bif\b"), ("return", r"\breturn\b"), ("let", r"\blet\b")]),
    ("signal-hook-async-std/src/lib.rs", "poll_next", None),
]


def fn_body(src, name, occurrence=0):
    """text of the body of the `occurrence`-th `fn name` (brace matched)"""
    ms = list(re.finditer(r"\bfn\s+%s\b" % re.escape(name), src))
    if len(ms) <= occurrence:
        raise ExtractError("fn %s not found" % name)
    i = src.find("{", ms[occurrence].end())
    # skip a `where` clause / return type: the first `{` at generic depth 0 after the signature
    depth = 0; j = ms[occurrence].end(); start = None
    while j < len(src):
        ch = src[j]
        if ch in "(<[":
            depth += 1
        elif ch in ")>]":
            if ch == ">" and src[j - 1] == "-":
                pass
            else:
                depth -= 1
        elif ch == "{" and depth <= 0:
            start = j; break
        elif ch == ";" and depth <= 0:
            raise ExtractError("fn %s has no body" % name)
        j += 1
    if start is None:
        raise ExtractError("fn %s: no body" % name)
    d = 0; k = start
    while k < len(src):
        if src[k] == "{":
            d += 1
        elif src[k] == "}":
            d -= 1
            if d == 0:
                return src[start:k + 1]
        k += 1
    raise ExtractError("fn %s: unbalanced" % name)


def extract_skeletons():
    out = []
    last = None
    for rel, fn, toks in SKELETONS:
        label_fn = fn
        toks = toks if toks is not None else last
        last = toks
        src = strip_comments(read(rel))
        cut = src.find("#[cfg(test)]")
        if cut >= 0:
            src = src[:cut]
        # the action closure of the iterator / the inherent `pending` are the last definitions
        occ = 0
        want = None
        if "#" in fn:
            fn, occ = fn.split("#")[0], int(fn.split("#")[1])
        if "@" in fn:
            fn, want = fn.split("@")
            occ = None
            for i in range(len(list(re.finditer(r"\bfn\s+%s\b" % re.escape(fn), src)))):
                try:
                    if want in fn_body(src, fn, i):
                        occ = i
                        break
                except ExtractError:
                    pass
            if occ is None:
                raise ExtractError("fn %s containing `%s` not found" % (fn, want))
        if fn == "next" and rel.endswith("backend.rs"):
            # `Pending::next`: the `fn next` whose body loads from the exfiltrator
            sigs = [m for m in re.finditer(r"\bfn\s+next\b", src)]
            occ = None
            for i in range(len(sigs)):
                try:
                    if "exfiltrator.load" in fn_body(src, "next", i):
                        occ = i
                        break
                except ExtractError:
                    pass
            if occ is None:
                raise ExtractError("Pending::next not found")
        if fn == "handler":
            # the non-windows dispatcher is the definition whose signature mentions `siginfo_t`
            sigs = [m for m in re.finditer(r"\bfn\s+handler\b[^{]*", src)]
            occ = next((i for i, m in enumerate(sigs) if "siginfo_t" in m.group(0)), None)
            if occ is None:
                raise ExtractError("non-windows fn handler not found")
        body = fn_body(src, fn, occ)
        found = []
        for label, rx in toks:
            # a call broken over several lines ends in `,\n)`: the trailing comma is rustfmt's, not a change
            rx = rx.replace(r"\s*\)", r"\s*,?\s*\)")
            for m in re.finditer(rx, body):
                found.append((m.start(), label))
        found.sort()
        out.append((rel, label_fn, [l for _, l in found]))
    return out


ORD = {"Relaxed": ".relaxed", "Acquire": ".acquire", "Release": ".release", "AcqRel": ".acqRel",
       "SeqCst": ".seqCst"}

CAUSE_LEAN = {
    "Cause::Unknown": ".unknown", "Cause::Kernel": ".kernel",
    "Cause::Sent(Sent::User)": ".sentUser", "Cause::Sent(Sent::TKill)": ".sentTKill",
    "Cause::Sent(Sent::Queue)": ".sentQueue", "Cause::Sent(Sent::MesgQ)": ".sentMesgQ",
    "Cause::Chld(Chld::Exited)": ".chldExited", "Cause::Chld(Chld::Killed)": ".chldKilled",
    "Cause::Chld(Chld::Dumped)": ".chldDumped", "Cause::Chld(Chld::Trapped)": ".chldTrapped",
    "Cause::Chld(Chld::Stopped)": ".chldStopped", "Cause::Chld(Chld::Continued)": ".chldContinued",
}


def write_if_changed(path, text):
    old = None
    if os.path.exists(path):
        old = open(path).read()
    if old != text:
        open(path, "w").write(text)


ERRORS = {}


LAST_GOOD_PATH = os.path.join(os.path.dirname(os.path.abspath(__file__)), "last_good.txt")
LAST_GOOD = {}


def load_last_good():
    import ast
    try:
        LAST_GOOD.update(ast.literal_eval(open(LAST_GOOD_PATH).read()))
    except (OSError, ValueError, SyntaxError):
        pass


def attempt(section, fn, fallback):
    """run one translator section; on failure record the error (every property that depends on the
    section then reports `no longer checks: translator ...`) and regenerate the section from what the
    translator read the last time it understood the source, so that the model stays executable and the
    search for a failing input can still compare it with the changed implementation"""
    try:
        v = fn()
        LAST_GOOD[section] = v
        return v
    except ExtractError as e:
        ERRORS[section] = str(e)
        v = LAST_GOOD.get(section)
        return v if v is not None else fallback


def main():
    os.makedirs(OUT, exist_ok=True)
    load_last_good()
    plat = platform_consts()
    hdr = "-- GENERATED by /verif/extract/extract.py from /repo on every run. Do not edit.\n"

    # Platform
    lines = [hdr, "namespace SigHook.Gen\n"]
    lines.append("/-- numeric values of the platform's constants (system headers via gcc) -/")
    lines.append("def platform : List (String × Int) := [")
    lines.append(",\n".join('  ("%s", %s)' % (k, lean_int(v)) for k, v in sorted(plat.items())))
    lines.append("]\n")
    for k, v in sorted(plat.items()):
        lines.append("def %s : Int := %s" % (k, lean_int(v)))
    lines.append("\nend SigHook.Gen\n")
    write_if_changed(os.path.join(OUT, "Platform.lean"), "\n".join(lines))

    # Consts
    fnames, fvals = attempt("forbidden", lambda: extract_forbidden(plat), ([], []))
    libflags, nextid, flagexpr = attempt("libflags", lambda: extract_libflags(plat), (0, 0, "?"))
    slots, bits, mask = attempt("channel_consts", extract_channel_consts, (0, 0, 0))
    maxsig, yield_every = attempt("misc_consts", extract_misc_consts, (0, 1))
    lines = [hdr, "namespace SigHook.Gen\n"]
    lines.append("/-- `FORBIDDEN_IMPL` (non-windows arm): %s -/" % ", ".join(fnames))
    lines.append("def forbidden : List Int := [%s]" % ", ".join(lean_int(v) for v in fvals))
    lines.append("def forbiddenNames : List String := [%s]" % ", ".join('"%s"' % n for n in fnames))
    lines.append("/-- flags installed by `Slot::new`: %s -/" % flagexpr.replace("\n", " "))
    lines.append("def libFlags : Nat := %d" % libflags)
    lines.append("/-- initial `next_id` in `GlobalData::ensure` -/")
    lines.append("def initialNextId : Nat := %d" % nextid)
    rtypes = attempt("registry_types", extract_registry_types, [])
    lines.append("/-- registry: what an id is and which containers hold the actions (signal-hook-registry/src/lib.rs) -/")
    lines.append("def registryTypes : List (String × String) := [%s]" % ", ".join('("%s", "%s")' % (a, b) for a, b in rtypes))
    lines.append("/-- channel.rs -/")
    lines.append("def SLOTS : Nat := %d" % slots)
    lines.append("def BITS : Nat := %d" % bits)
    lines.append("def MASK : Nat := %d" % mask)
    lines.append("/-- backend.rs -/")
    lines.append("def MAX_SIGNUM : Nat := %d" % maxsig)
    lines.append("/-- half_lock.rs -/")
    lines.append("def YIELD_EVERY : Nat := %d" % yield_every)
    lines.append("/-- backend.rs `poll_signal`: re-checks `is_closed()` before answering `Pending` for a `None` of `poll_pending` -/")
    lines.append("def pollRechecksClosed : Bool := %s" % ("true" if attempt("poll_signal_shape", extract_poll_signal_shape, False) else "false"))
    tol, idem = attempt("instance_shape", extract_instance_shape, (False, False))
    lines.append("/-- backend.rs: both `registered_signal_ids.lock()` sites ignore poisoning -/")
    lines.append("def lockToleratesPoison : Bool := %s" % ("true" if tol else "false"))
    lines.append("/-- raw.rs: `WithRawSiginfo::init` returns early when the slot already has its channel -/")
    lines.append("def initIdempotent : Bool := %s" % ("true" if idem else "false"))
    lines.append("\nend SigHook.Gen\n")
    write_if_changed(os.path.join(OUT, "Consts.lean"), "\n".join(lines))

    # Details
    rows = attempt("details", lambda: extract_details(plat), [])
    lines = [hdr, "namespace SigHook.Gen\n",
             "inductive DefaultKind where | ignore | stop | term", "deriving DecidableEq, Repr\n",
             "/-- rows of `DETAILS` enabled on this platform: (name, number, default kind) -/",
             "def details : List (String × Int × DefaultKind) := ["]
    lines.append(",\n".join('  ("%s", %s, .%s)' % (n, lean_int(v), k.lower()) for n, v, k in rows))
    lines.append("]\n\nend SigHook.Gen\n")
    write_if_changed(os.path.join(OUT, "Details.lean"), "\n".join(lines))

    # Cause
    crows, icause, hp, conv, default = attempt("cause", lambda: extract_cause(plat), ([], [], {}, {}, "Cause::Unknown"))
    lines = [hdr, "namespace SigHook.Gen\n",
             "inductive Cause where", "  | unknown | kernel | sentUser | sentTKill | sentQueue | sentMesgQ",
             "  | chldExited | chldKilled | chldDumped | chldTrapped | chldStopped | chldContinued",
             "deriving DecidableEq, Repr\n",
             "/-- rows of `consts[]` in extract.c enabled on this platform: (native si_code, signal or -1, translated) -/",
             "def causeRows : List (Int × Int × Nat) := ["]
    lines.append(",\n".join("  (%s, %s, %d)  -- %s" % (lean_int(nat), lean_int(sg), tr, nm) if False else
                            "  (%s, %s, %d)" % (lean_int(nat), lean_int(sg), tr) for nm, nat, sg, tr in crows))
    lines.append("]\n")
    lines.append("/-- discriminants of `enum ICause` -/")
    lines.append("def icause : List (String × Nat) := [%s]\n" % ", ".join('("%s", %d)' % (n, d) for n, d in icause))
    lines.append("/-- `ICause::has_process`, by discriminant -/")
    lines.append("def hasProcessTable : List (Nat × Bool) := [%s]\n" %
                 ", ".join("(%d, %s)" % (d, "true" if hp[n] else "false") for n, d in icause))
    lines.append("/-- `From<ICause> for Cause`, by discriminant (default arm: %s) -/" % default)
    for n, d in icause:
        if conv.get(n, default) not in CAUSE_LEAN:
            raise ExtractError("unknown Cause expression " + conv.get(n, default))
    lines.append("def toCauseTable : List (Nat × Cause) := [%s]" %
                 ", ".join("(%d, %s)" % (d, CAUSE_LEAN[conv.get(n, default)]) for n, d in icause))
    lines.append("def toCauseDefault : Cause := %s" % CAUSE_LEAN[default])
    cfields = attempt("cause_fields", extract_cause_fields, [])
    lines.append("\n/-- integer types of the fields of `struct Const` (extract.c): (field, bits, signed) -/")
    lines.append("def constFields : List (String × Nat × Bool) := [%s]" %
                 ", ".join('("%s", %d, %s)' % (f_, b_, "true" if sg_ else "false") for f_, b_, sg_ in cfields))
    lines.append("\nend SigHook.Gen\n")
    write_if_changed(os.path.join(OUT, "Cause.lean"), "\n".join(lines))

    # Orderings
    sites = attempt("orderings", extract_orderings, [])
    lines = [hdr, "import SigHook.Model.Ord", "namespace SigHook.Gen\nopen SigHook\n",
             "/-- every atomic call site: (file, fn, ordinal within fn, method, orderings) -/",
             "def orderings : List (String × String × Nat × String × List Ord) := ["]
    lines.append(",\n".join('  ("%s", "%s", %d, "%s", [%s])' % (
        s["file"], s["fn"], s["ordinal"], s["method"], ", ".join(ORD[o] for o in s["orderings"])) for s in sites))
    lines.append("]\n\nend SigHook.Gen\n")
    write_if_changed(os.path.join(OUT, "Orderings.lean"), "\n".join(lines))
    # Skeletons
    skels = attempt("skeleton", extract_skeletons, [])
    lines = [hdr, "namespace SigHook.Gen\n",
             "/-- ordered calls inside the functions whose step order the models mirror: (file, fn, calls) -/",
             "def skeleton : List (String × String × List String) := ["]
    lines.append(",\n".join('  ("%s", "%s", [%s])' % (f_, n_, ", ".join('"%s"' % c for c in cs)) for f_, n_, cs in skels))
    lines.append("]\n\nend SigHook.Gen\n")
    write_if_changed(os.path.join(OUT, "Skeleton.lean"), "\n".join(lines))
    with open(SITES, "w") as f:
        json.dump({"sites": sites, "platform": plat}, f, indent=1, sort_keys=True)
    with open(SITES.replace(".json", ".txt"), "w") as f:
        for st in sites:
            f.write("%s %d %s#%d\n" % (st["file"], st["line"], st["fn"], st["ordinal"]))
    with open(os.path.join(os.path.dirname(SITES), "extract_errors.json"), "w") as f:
        json.dump(ERRORS, f, indent=1, sort_keys=True)
    import pprint
    write_if_changed(LAST_GOOD_PATH, pprint.pformat(LAST_GOOD, width=160) + "\n")
    print("extract: %s (%d platform consts, %d DETAILS rows, %d cause rows, %d atomic sites)%s" %
          ("ok" if not ERRORS else "PARTIAL", len(plat), len(rows), len(crows), len(sites),
           "".join("; %s: %s" % kv for kv in sorted(ERRORS.items()))))


if __name__ == "__main__":
    try:
        main()
    except ExtractError as e:
        print("EXTRACT-ERROR: %s" % e)
        sys.exit(3)
